#!/bin/bash
# Sensitivity of the checks: re-introduce each repaired defect (reverse of its fix: commit) and
# apply every kept seeded change (/verif/seeded/*/patch.diff) to /repo's working tree, run the
# quick checks of the listed properties, undo, and print a table. /repo is left clean.
# usage: ./sensitivity.sh [fixes|seeded|seeded-own|all] [property ...]   (SENS_CLONE=1: work on a private clone; SENS_ONLY='*-r6-*': only the seeded changes whose id matches)
set -u
cd "$(dirname "$0")"
what="${1:-all}"; shift || true
props="${*:-C02 C03 C05 C06 C07 C10 C11 C14 C15 C18 C19}"
REPO="${VERIF_REPO:-/repo}"
if [ "${SENS_CLONE:-0}" = 1 ]; then
    # work on a private clone so that /repo itself is never touched (background runs)
    REPO="/tmp/sens-repo.$$"
    rm -rf "$REPO"; git clone -q /repo "$REPO" || exit 2
    export VERIF_REPO="$REPO"
    trap 'rm -rf "$REPO"' EXIT
fi
if [ -n "$(git -C "$REPO" status --porcelain --untracked-files=no)" ]; then echo "$REPO has uncommitted changes" >&2; exit 2; fi
run_checks() { # label
    local label="$1" line="" p rc
    for p in $props; do
        ./check "$p" quick >/tmp/sens.$$.log 2>&1; rc=$?
        at="$(grep -m1 -o 'violation in run [0-9]*' /tmp/sens.$$.log | grep -o '[0-9]*$')"
        case $rc in 0) line="$line $p:-";; 1) line="$line $p:CAUGHT@${at:-?}";; *) line="$line $p:ERR$rc";; esac
    done
    echo "$label |$line"
    rm -f /tmp/sens.$$.log
}
if [ "$what" = fixes ] || [ "$what" = all ]; then
    for c in $(git -C "$REPO" log --format=%h --reverse --grep='^fix:' ); do
        subj="$(git -C "$REPO" log -1 --format=%s $c | cut -c1-70)"
        if git -C "$REPO" show $c | git -C "$REPO" apply -R 2>/dev/null; then
            run_checks "revert $c $subj"
        else
            echo "revert $c $subj | (does not apply in reverse on top of later fixes)"
        fi
        git -C "$REPO" checkout -- . 
    done
fi
if [ "$what" = seeded-own ]; then
    # each seeded change against the check of the property it targets only
    for d in seeded/*/; do
        [ -f "$d/patch.diff" ] || continue
        case "$(basename $d)" in ${SENS_ONLY:-*}) ;; *) continue;; esac
        own="$(basename $d | cut -d- -f1)"
        if git -C "$REPO" apply "$PWD/$d/patch.diff" 2>/dev/null; then
            props="$own" run_checks "seeded $(basename $d)"
        else
            echo "seeded $(basename $d) | (patch does not apply)"
        fi
        git -C "$REPO" checkout -- .
    done
fi
if [ "$what" = seeded ] || [ "$what" = all ]; then
    for d in seeded/*/; do
        [ -f "$d/patch.diff" ] || continue
        case "$(basename $d)" in ${SENS_ONLY:-*}) ;; *) continue;; esac
        if git -C "$REPO" apply "$PWD/$d/patch.diff" 2>/dev/null; then
            run_checks "seeded $(basename $d)"
        else
            echo "seeded $(basename $d) | (patch does not apply)"
        fi
        git -C "$REPO" checkout -- .
    done
fi
./check build >/dev/null 2>&1
