#!/bin/bash
# Sensitivity of the checks: re-introduce each repaired defect (reverse of its fix: commit) and
# apply every kept seeded change (/verif/seeded/*/patch.diff) to /repo's working tree, run the
# quick checks of the listed properties, undo, and print a table. /repo is left clean.
# usage: ./sensitivity.sh [fixes|seeded|all] [property ...]
set -u
cd "$(dirname "$0")"
what="${1:-all}"; shift || true
props="${*:-C02 C03 C05 C06 C07 C10 C11 C14 C15 C18 C19}"
if [ -n "$(git -C /repo status --porcelain --untracked-files=no)" ]; then echo "/repo has uncommitted changes" >&2; exit 2; fi
run_checks() { # label
    local label="$1" line="" p rc
    for p in $props; do
        ./check "$p" quick >/tmp/sens.$$.log 2>&1; rc=$?
        case $rc in 0) line="$line $p:-";; 1) line="$line $p:CAUGHT";; *) line="$line $p:ERR$rc";; esac
    done
    echo "$label |$line"
    rm -f /tmp/sens.$$.log
}
if [ "$what" = fixes ] || [ "$what" = all ]; then
    for c in $(git -C /repo log --format=%h --reverse --grep='^fix:' ); do
        subj="$(git -C /repo log -1 --format=%s $c | cut -c1-70)"
        if git -C /repo show $c | git -C /repo apply -R 2>/dev/null; then
            run_checks "revert $c $subj"
        else
            echo "revert $c $subj | (does not apply in reverse on top of later fixes)"
        fi
        git -C /repo checkout -- . 
    done
fi
if [ "$what" = seeded ] || [ "$what" = all ]; then
    for d in seeded/*/; do
        [ -f "$d/patch.diff" ] || continue
        if git -C /repo apply "$PWD/$d/patch.diff" 2>/dev/null; then
            run_checks "seeded $(basename $d)"
        else
            echo "seeded $(basename $d) | (patch does not apply)"
        fi
        git -C /repo checkout -- .
    done
fi
./check build >/dev/null 2>&1
