#!/bin/bash
# false-alarm control: the quick check of every property under several other batch seeds
# usage: ./sweep.sh [tier] [seed ...]
cd "$(dirname "$0")"
tier="${1:-quick}"; shift || true
seeds="${*:-1 2 3 4 5 6 7 8}"
for s in $seeds; do
  for p in C02 C03 C05 C06 C07 C10 C11 C14 C15 C18 C19; do
    out=$(VERIF_SEED=$s ./check $p $tier 2>&1); rc=$?
    echo "seed $s $p exit $rc $(echo "$out" | grep -E 'runs \(' | cut -c1-120) $(echo "$out" | grep -E 'violation in run' | cut -c1-300)"
  done
done
