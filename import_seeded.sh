#!/bin/bash
# import_seeded.sh <property> <n> "<what it needs to manifest>"  : verify and keep a sub-agent change
p=$1; n=$2; needs="$3"; r="${ROUND:-}"; sid="$p-$n"; [ -n "$r" ] && sid="$p-r$r-$n"
line=$(/verif/verify_seeded.sh $p $n 2>&1 | sed 's/; 0 ignored; 0 measured; 0 filtered out//g; s/finished in [0-9.]*s//g')
echo "$line"
case "$line" in
  *"unmodified demo: test result: ok"*"patched unit: test result: ok. 44 passed"*"patched demo: test result: FAILED"*) ;;
  *) echo "NOT KEPT: verification failed"; exit 1;;
esac
d=/verif/seeded/$sid; mkdir -p $d
cp /tmp/mut$r-$p/$n/patch.diff /tmp/mut$r-$p/$n/demo.rs $d/
cp /tmp/mut$r-$p/$n/README.md $d/README.md 2>/dev/null
python3 - "$p" "$sid" "$needs" "$line" "$r" <<'PY'
import json,sys
p,sid,needs,line,r=sys.argv[1:6]
meta={"breaks_property":p,"origin":"written by a fresh sub-agent that was given only the text of the property and a scratch worktree of /repo (nothing from /verif)",
 "needs_to_manifest":needs,
 "verification":{"how":"verify_seeded.sh in the scratch worktree /tmp/wt%s-%s: unmodified tree: cargo test --offline --test demo; with patch.diff applied: cargo test --offline --lib and cargo test --offline --test demo"%(r,p),"result":line},
 "detected_by":"see DESIGN.md sensitivity table (filled by ./sensitivity.sh seeded)"}
json.dump(meta,open(f"/verif/seeded/{sid}/meta.json","w"),indent=1)
PY
