//! `sim`: deterministic simulation of raqote histories with perturbation / fault injection.
//! See /verif/DESIGN.md. Exit codes: 0 held, 1 violation, 2 harness error.

mod alloc;
mod coord;
mod engine;
mod gen;
mod geo;
mod kernel;
mod known;
mod minimise;
mod misc;
mod mk;
mod ops;
mod pairs;
mod props;
mod rng;
mod tower;

#[cfg(not(miri))]
#[global_allocator]
static GLOBAL: alloc::Counting = alloc::Counting;

fn arg_value(args: &[String], name: &str) -> Option<String> {
    args.iter().position(|a| a == name).and_then(|i| args.get(i + 1).cloned())
}

fn main() {
    let args: Vec<String> = std::env::args().collect();
    if args.len() < 2 {
        eprintln!("usage: sim run|worker|minimise|replay|selftest|gen ...");
        std::process::exit(2);
    }
    // a write beyond RLIMIT_FSIZE must come back as EFBIG, not kill the process
    #[cfg(not(miri))]
    unsafe {
        libc::signal(libc::SIGXFSZ, libc::SIG_IGN);
    }
    mk::install_panic_hook();
    let code = match args[1].as_str() {
        "run" => coord::cmd_run(&args),
        "worker" => coord::cmd_worker(&args),
        "minimise" => coord::cmd_minimise(&args),
        "replay" => coord::cmd_replay(&args),
        "selftest" => coord::cmd_selftest(&args),
        "gen" => coord::cmd_gen(&args),
        "miri-c10" => coord::cmd_miri_c10(&args),
        "gen-miri-c10" => coord::cmd_gen_miri_c10(&args),
        other => {
            eprintln!("unknown command {}", other);
            2
        }
    };
    std::process::exit(code);
}

pub fn opt(args: &[String], name: &str) -> Option<String> {
    arg_value(args, name)
}
