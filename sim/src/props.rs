//! Dispatch: property id -> generator and checked execution.

use crate::engine::*;
use crate::ops::*;
use crate::rng::Rng;
use crate::{misc, pairs, tower};

pub const CLAIMED: [&str; 11] = ["C02", "C03", "C05", "C06", "C07", "C10", "C11", "C14", "C15", "C18", "C19"];

pub const V18_MULTI: u32 = 0x100;

pub fn generate(prop: &str, rng: &mut Rng, thorough: bool) -> History {
    match prop {
        "C02" => tower::gen_tower(tower::Prop::C02, rng, thorough),
        "C03" => tower::gen_tower(tower::Prop::C03, rng, thorough),
        "C05" => tower::gen_tower(tower::Prop::C05, rng, thorough),
        "C06" => tower::gen_tower(tower::Prop::C06, rng, thorough),
        "C07" => misc::gen_c07(rng, thorough),
        "C10" => pairs::gen_c10(rng, thorough),
        "C11" => pairs::gen_c11(rng, thorough),
        "C14" => pairs::gen_c14(rng, thorough),
        "C15" => misc::gen_c15(rng, thorough),
        "C18" => {
            if rng.chance(1, 5) {
                let mut h = misc::gen_c15(rng, thorough);
                h.variant |= V18_MULTI;
                h
            } else {
                tower::gen_tower(tower::Prop::C18, rng, thorough)
            }
        }
        "C19" => misc::gen_c19(rng, thorough),
        _ => panic!("unknown property {}", prop),
    }
}

pub fn run(prop: &str, h: &History, io_dir: &str, st: &mut Stats) -> Outcome {
    // Calls into raqote are guarded one by one inside the engines. This outer guard is for the
    // reference model itself: sw-composite's non-separable blend functions, which the kernel
    // evaluates too, can overflow-panic (known finding F11) - such a run is abandoned.
    let r = crate::mk::guarded(u64::MAX, || run_inner(prop, h, io_dir, st));
    let out = match r {
        Ok(o) => o,
        Err(pi) => {
            let class = format!("model-side {}", panic_class(&pi));
            st.abort(&class);
            st.count("runs_aborted");
            Outcome::Aborted(format!("reference model: {}", panic_desc(&pi)))
        }
    };
    raqote::verif::set_buggify(0);
    st.absorb_hooks();
    out
}

fn run_inner(prop: &str, h: &History, io_dir: &str, st: &mut Stats) -> Outcome {
    let out = match prop {
        "C02" => tower::run_tower(tower::Prop::C02, h, st),
        "C03" => tower::run_tower(tower::Prop::C03, h, st),
        "C05" => tower::run_tower(tower::Prop::C05, h, st),
        "C06" => tower::run_tower(tower::Prop::C06, h, st),
        "C07" => misc::run_c07(h, st),
        "C10" => pairs::run_c10(h, st),
        "C11" => pairs::run_c11(h, st),
        "C14" => pairs::run_c14(h, st),
        "C15" => misc::run_c15(h, st),
        "C18" => {
            if h.variant & V18_MULTI != 0 {
                run_c18_multi(h, st)
            } else {
                tower::run_tower(tower::Prop::C18, h, st)
            }
        }
        "C19" => misc::run_c19(h, io_dir, st),
        _ => panic!("unknown property {}", prop),
    };
    out
}

/// C18 on multi-surface worlds (surface transfers included): validity after every call
fn run_c18_multi(h: &History, st: &mut Stats) -> Outcome {
    let mut p = crate::mk::World::new(&h.surfaces);
    let mut draws = 0;
    for (i, step) in h.steps.iter().enumerate() {
        if step.surf >= p.surfs.len() {
            continue;
        }
        if let Err(pi) = exec(&mut p, step, h.tick_budget, st) {
            st.abort(&panic_class(&pi));
            return Outcome::Aborted(panic_desc(&pi));
        }
        draws += 1;
        for s in &p.surfs {
            if let Some(d) = first_invalid(s.pixels(), s.w()) {
                return Outcome::Violation(Violation {
                    oracle: "c18.invalid-premultiplied",
                    step: i,
                    detail: format!("after {} [{}]: {}", step.op.name(), step.op.blend().map(|b| BLEND_NAMES[b as usize % 28]).unwrap_or("-"), d),
                    panic: None,
                });
            }
        }
    }
    st.nontrivial_flag = draws >= 2;
    Outcome::Ok
}
