//! Common pieces of every checked execution: outcome types, statistics, step helper.

use crate::mk::{self, PanicInfo, World};
use crate::ops::*;
use serde::Serialize;
use std::collections::BTreeMap;

#[derive(Clone, Debug)]
pub struct Violation {
    /// e.g. "c10.twin-differs"; the prefix before '.' names the property the oracle belongs to
    pub oracle: &'static str,
    pub step: usize,
    pub detail: String,
    pub panic: Option<PanicInfo>,
}

#[derive(Clone, Debug)]
pub enum Outcome {
    Ok,
    Violation(Violation),
    /// the run could not be completed for a reason that this property's check does not own
    Aborted(String),
}

#[derive(Clone, Debug, Default, Serialize)]
pub struct Stats {
    pub runs: u64,
    pub ops: u64,
    pub nontrivial: u64,
    pub counters: BTreeMap<&'static str, u64>,
    pub maxes: BTreeMap<&'static str, u64>,
    pub aborted: BTreeMap<String, u64>,
    pub known_findings: BTreeMap<String, u64>,
    pub probes: Vec<u64>,
    pub ticks_by_site: Vec<u64>,
    pub buggify_flips: Vec<u64>,
    pub ticks_total: u64,
    pub samples: Vec<String>,
    #[serde(skip)]
    pub nontrivial_flag: bool,
    /// distinct states measure: one signature per executed call = (which blitters / shaders /
    /// rare branches it reached, call kind, blend mode, clip depth, layer depth)
    pub state_hashes: std::collections::BTreeSet<u64>,
}

impl Stats {
    pub fn new() -> Stats {
        Stats {
            probes: vec![0; raqote::verif::N_PROBES],
            ticks_by_site: vec![0; raqote::verif::N_TICK_SITES],
            buggify_flips: vec![0; raqote::verif::N_BUGGIFY_SITES],
            ..Default::default()
        }
    }
    #[inline]
    pub fn count(&mut self, key: &'static str) {
        *self.counters.entry(key).or_insert(0) += 1;
    }
    #[inline]
    pub fn add(&mut self, key: &'static str, n: u64) {
        *self.counters.entry(key).or_insert(0) += n;
    }
    #[inline]
    pub fn max(&mut self, key: &'static str, v: u64) {
        let e = self.maxes.entry(key).or_insert(0);
        if v > *e {
            *e = v;
        }
    }
    pub fn abort(&mut self, why: &str) {
        *self.aborted.entry(why.to_string()).or_insert(0) += 1;
    }
    /// folds the hook side counters (probes, ticks, buggify flips) of the finished run into the totals
    pub fn absorb_hooks(&mut self) {
        let p = raqote::verif::take_probes();
        for i in 0..p.len() {
            self.probes[i] += p[i];
        }
        let t = raqote::verif::take_ticks_by_site();
        for i in 0..t.len() {
            self.ticks_by_site[i] += t[i];
            self.ticks_total += t[i];
        }
        let b = raqote::verif::take_buggify_flips();
        for i in 0..b.len() {
            self.buggify_flips[i] += b[i];
        }
    }
}

pub fn first_diff(a: &[u32], b: &[u32], w: i32) -> Option<String> {
    if a.len() != b.len() {
        return Some(format!("length {} vs {}", a.len(), b.len()));
    }
    for i in 0..a.len() {
        if a[i] != b[i] {
            let (x, y) = if w > 0 { (i as i32 % w, i as i32 / w) } else { (0, 0) };
            let n = a.iter().zip(b).filter(|(p, q)| p != q).count();
            return Some(format!("pixel ({},{}) {:08x} vs {:08x} ({} pixels differ)", x, y, a[i], b[i], n));
        }
    }
    None
}

pub fn panic_desc(p: &PanicInfo) -> String {
    match &p.budget_site {
        Some(site) => format!("step budget exceeded at {} after {} ticks", site, p.ticks),
        None => format!("panic at {}: {}", mk::short_location(&p.location), p.message),
    }
}

/// classification used for the `aborted` statistics: stable across runs, no addresses
pub fn panic_class(p: &PanicInfo) -> String {
    match &p.budget_site {
        Some(site) => format!("budget:{}", site),
        None => format!("panic:{}", mk::short_location(&p.location)),
    }
}

/// Executes a step on `world` under the budget; updates op statistics.
pub fn exec(world: &mut World, step: &Step, budget: u64, st: &mut Stats) -> Result<(), PanicInfo> {
    st.ops += 1;
    // whatever the reference renders since the last call reached goes into the totals only
    let before = raqote::verif::take_probes();
    for i in 0..before.len() {
        st.probes[i] += before[i];
    }
    let r = mk::guarded(budget, || world.apply(step));
    // reach: which code this call went through, in which state
    let p = raqote::verif::take_probes();
    let mut sig: u64 = 0;
    for i in 0..p.len() {
        st.probes[i] += p[i];
        if p[i] > 0 {
            sig |= 1 << i;
        }
    }
    if let Some(sh) = world.shadows.get(step.surf) {
        sig |= (sh.layer_depth().min(7) as u64) << 40;
        sig |= (sh.clip_depth().min(7) as u64) << 43;
    }
    sig |= (step.op.blend().unwrap_or(31) as u64 & 31) << 46;
    sig |= (step.op.kind_index() as u64 & 31) << 51;
    st.state_hashes.insert(sig);
    st.max("ticks_max_per_op", raqote::verif::ticks().max(r.as_ref().err().map(|p| p.ticks).unwrap_or(0)));
    r
}

/// After-call monitors that hold for every property: transform, stack depths.
pub fn check_shadow(world: &World, si: usize, prefix: &'static str, step: usize) -> Result<(), Violation> {
    let s = &world.surfs[si];
    let sh = &world.shadows[si];
    let t = s.transform();
    if mk::unmat(&t).iter().zip(sh.ctm.iter()).any(|(a, b)| a.0.to_bits() != b.0.to_bits()) {
        return Err(Violation {
            oracle: match prefix {
                "c11" => "c11.transform-not-preserved",
                "c06" => "c06.transform-not-preserved",
                _ => "c10.transform-not-preserved",
            },
            step,
            detail: format!("get_transform() = {:?}, last set {:?}", t, mk::mat(&sh.ctm)),
            panic: None,
        });
    }
    if s.clip_depth() != sh.clip_depth() || s.layer_depth() != sh.layer_depth() {
        return Err(Violation {
            oracle: match prefix {
                "c05" => "c05.clip-depth",
                "c06" => "c06.stack-depth",
                _ => "c10.stack-depth",
            },
            step,
            detail: format!(
                "clip depth {} (expected {}), layer depth {} (expected {})",
                s.clip_depth(),
                sh.clip_depth(),
                s.layer_depth(),
                sh.layer_depth()
            ),
            panic: None,
        });
    }
    Ok(())
}

pub fn premul_ok(p: u32) -> bool {
    let a = p >> 24;
    ((p >> 16) & 0xff) <= a && ((p >> 8) & 0xff) <= a && (p & 0xff) <= a
}

pub fn first_invalid(px: &[u32], w: i32) -> Option<String> {
    for (i, p) in px.iter().enumerate() {
        if !premul_ok(*p) {
            let (x, y) = if w > 0 { (i as i32 % w, i as i32 / w) } else { (0, 0) };
            return Some(format!("pixel ({},{}) = {:08x} has a colour channel above alpha", x, y, p));
        }
    }
    None
}
