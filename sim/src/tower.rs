//! Model based oracles for C02, C03, C05, C06, C18.
//!
//! The primary target P executes the whole history. Every open layer additionally has a
//! *group twin*: a fresh transparent target with the same transform and clip stack that
//! receives everything drawn into that layer. The innermost level is therefore always a real
//! target at layer depth 0 whose pixels can be read, so every drawing call and every
//! pop_layer is observed on some target, although raqote has no accessor for layer buffers.

use crate::engine::*;
use crate::gen::*;
use crate::kernel::{self, Verdict};
use crate::mk::{self, World};
use crate::ops::*;
use crate::rng::Rng;
use raqote::*;
use sw_composite::muldiv255;

#[derive(Clone, Copy, PartialEq, Debug)]
pub enum Prop {
    C02,
    C03,
    C05,
    C06,
    C18,
}

enum ClipModel {
    Rect([i32; 4]),
    Mask(Vec<u8>),
}

enum Br {
    Clip,
    Layer,
}

struct Level {
    world: World,
    /// pixels of this level when its (currently open) layer was pushed
    base: Option<Vec<u32>>,
    layer: Option<(f32, u8)>,
    /// for a group twin: the extent of the layer it stands for (the clip rectangles in force
    /// at the push, limited to the surface). Nothing can be drawn into the layer outside of it,
    /// whatever happens to the clip stack afterwards.
    rect: Option<[i32; 4]>,
}

fn viol(oracle: &'static str, step: usize, detail: String) -> Outcome {
    Outcome::Violation(Violation { oracle, step, detail, panic: None })
}

// ---------------------------------------------------------------------------
// generation

pub fn gen_tower(prop: Prop, rng: &mut Rng, thorough: bool) -> History {
    let max = match prop {
        Prop::C02 | Prop::C03 | Prop::C18 => 64,
        _ => if thorough { 64 } else { 33 },
    };
    let transparent_ok = prop == Prop::C03 || prop == Prop::C18;
    let surf = if thorough && rng.chance(1, 12) { gen_surface_big(rng, transparent_ok) } else { gen_surface(rng, max, false, transparent_ok) };
    let deeper = thorough && rng.chance(1, 3);
    let mut em = Emit::new(vec![surf]);
    let mut draw = DrawCfg::general();
    let mut buggify = 0;
    let cfg = match prop {
        Prop::C02 => {
            // mostly the modes that would erase the destination, but SrcOver has its own blitters
            draw.blend = rng.pick(&[BlendProfile::Destructive, BlendProfile::Destructive, BlendProfile::Common, BlendProfile::Uniform]);
            draw.sparse = true;
            draw.kinds = [8, 5, 4, 1, 3, 2, 1];
            SceneCfg {
                min_ops: 1,
                max_ops: 10,
                max_clip: 4,
                max_layer: 2,
                p_clip: rng.pick(&[0, 80, 200, 250]),
                p_layer: rng.pick(&[0, 60, 120, 200]),
                p_pop: 100,
                p_transform: rng.pick(&[0, 60]),
                p_nop: rng.pick(&[0, 60]),
                p_restart: 0,
                p_resync: 0,
                allow_singular: true,
                draw,
                aligned_clip_paths: false,
                early_clip_pop: true,
                layer_blend: rng.pick(&[BlendProfile::Destructive, BlendProfile::Common]),
            }
        }
        Prop::C03 => {
            draw.blend = if rng.chance(1, 2) { BlendProfile::Uniform } else { BlendProfile::Common };
            draw.kinds = [8, 5, 3, 1, 4, 2, 1];
            buggify = if rng.chance(1, 3) { 1 + rng.below(3) as u32 } else { 0 };
            SceneCfg {
                min_ops: 1,
                max_ops: 10,
                max_clip: 3,
                max_layer: 2,
                p_clip: rng.pick(&[0, 80, 200]),
                p_layer: rng.pick(&[0, 60, 150]),
                p_pop: 100,
                p_transform: rng.pick(&[0, 60, 120]),
                p_nop: rng.pick(&[0, 40]),
                p_restart: 0,
                p_resync: 0,
                allow_singular: true,
                draw,
                aligned_clip_paths: false,
                early_clip_pop: true,
        layer_blend: BlendProfile::Uniform,
            }
        }
        Prop::C05 => {
            draw.kinds = [8, 5, 3, 2, 3, 2, 1];
            if rng.chance(1, 3) {
                draw.blend = BlendProfile::Destructive;
            }
            SceneCfg {
                min_ops: 4,
                max_ops: 14,
                max_clip: 5,
                max_layer: 2,
                p_clip: rng.pick(&[250, 350]),
                p_layer: rng.pick(&[0, 40, 80]),
                p_pop: rng.pick(&[100, 200]),
                p_transform: rng.pick(&[0, 60]),
                p_nop: 0,
                p_restart: 0,
                p_resync: 0,
                allow_singular: false,
                draw,
                aligned_clip_paths: rng.chance(1, 4),
                early_clip_pop: true,
        layer_blend: BlendProfile::Common,
            }
        }
        Prop::C06 => {
            draw.kinds = [8, 5, 3, 3, 3, 2, 1];
            SceneCfg {
                min_ops: 4,
                max_ops: 16,
                max_clip: 3,
                max_layer: 3,
                p_clip: rng.pick(&[60, 150]),
                p_layer: rng.pick(&[200, 300]),
                p_pop: rng.pick(&[120, 200]),
                p_transform: rng.pick(&[0, 60]),
                p_nop: 0,
                p_restart: 0,
                p_resync: 0,
                allow_singular: false,
                draw,
                aligned_clip_paths: false,
                early_clip_pop: true,
        layer_blend: BlendProfile::Uniform,
            }
        }
        Prop::C18 => {
            draw.blend = BlendProfile::Uniform;
            draw.kinds = [8, 5, 3, 1, 4, 3, 2];
            SceneCfg {
                min_ops: 2,
                max_ops: 12,
                max_clip: 3,
                max_layer: 3,
                p_clip: rng.pick(&[0, 100]),
                p_layer: rng.pick(&[60, 200]),
                p_pop: 120,
                p_transform: rng.pick(&[0, 60]),
                p_nop: 0,
                p_restart: 0,
                p_resync: 0,
                allow_singular: false,
                draw,
                aligned_clip_paths: false,
                early_clip_pop: true,
        layer_blend: BlendProfile::Uniform,
            }
        }
    };
    let mut cfg = cfg;
    if deeper {
        // thorough tier: longer histories and deeper stacks on a third of the runs
        cfg.max_ops += 10;
        cfg.max_clip += 1;
        cfg.max_layer += 1;
    }
    if matches!(prop, Prop::C02 | Prop::C03 | Prop::C06) && rng.chance(1, 4) {
        // a quarter of the histories take place inside a layer whose origin is not the surface's
        // (pushed under a clip rectangle at an offset): destination indexing relative to the
        // layer, clip masks relative to the surface
        let (w, h) = em.dims(0);
        if w >= 3 && h >= 3 {
            let x1 = rng.range(1, w / 2);
            let y1 = rng.range(1, h / 2);
            em.push(0, Op::PushClipRect([x1, y1, rng.range(x1 + 1, w + 1), rng.range(y1 + 1, h + 1)]));
            let plain = rng.chance(1, 2);
            em.push(0, Op::PushLayer { opacity: F(if rng.chance(1, 2) { 1. } else { rng.unit() }), blend: if plain { BLEND_SRC_OVER } else { gen_blend(rng, cfg.layer_blend) }, plain });
        }
    }
    if prop == Prop::C05 {
        // most C05 histories start with a stack already in place: rect/path in either order
        let (w, h) = em.dims(0);
        let n0 = rng.pick(&[0usize, 1, 2, 2, 3]);
        for _ in 0..n0 {
            if rng.chance(1, 2) {
                let r = if rng.chance(2, 3) {
                    // a rect that keeps a good part of the surface visible
                    let x1 = rng.range(-2, w / 2);
                    let y1 = rng.range(-2, h / 2);
                    [x1, y1, rng.range(w / 2, w + 2), rng.range(h / 2, h + 2)]
                } else {
                    gen_clip_rect(rng, w, h)
                };
                em.push(0, Op::PushClipRect(r));
            } else {
                let p = if rng.chance(2, 3) {
                    // a big blob with antialiased edges crossing the surface
                    let cx = rng.f32_in(0., w as f32);
                    let cy = rng.f32_in(0., h as f32);
                    let r = rng.f32_in(0.4, 0.9) * (w.max(h) as f32);
                    PathSpec::new(false, vec![Seg::M(F(cx + r), F(cy)), Seg::Arc(F(cx), F(cy), F(r), F(0.), F(7.)), Seg::Z])
                } else {
                    gen_clip_path(rng, w, h, cfg.aligned_clip_paths)
                };
                em.push(0, Op::PushClip(p));
            }
        }
    }
    gen_scene(rng, &mut em, 0, &cfg);
    em.finish(buggify, 0, 2_000_000_000, format!("{:?} clip={} layer={} transform={} nop={}", prop, cfg.p_clip, cfg.p_layer, cfg.p_transform, cfg.p_nop))
}

// ---------------------------------------------------------------------------
// canonical single-call primitives, always on a fresh target

fn white() -> Source<'static> {
    Source::Solid(SolidSource { r: 255, g: 255, b: 255, a: 255 })
}

fn rect_path(x: f32, y: f32, w: f32, h: f32) -> Path {
    let mut pb = PathBuilder::new();
    pb.rect(x, y, w, h);
    pb.finish()
}

/// coverage of the shape of a drawing call, w*h bytes. None: not a shape-carrying call.
///
/// For fill / fill_rect / stroke / draw_image it is *observed*: the same kind of call with an opaque
/// white source, SrcOver, alpha 1, on a fresh transparent target under the same transform - there
/// the alpha byte of every pixel equals its coverage byte (kernel::selftest). This is the canonical
/// single call; what is checked is that the same shape composites consistently in every other
/// state. (The rasteriser-only hook `verif_coverage` is used for clip paths, whose masks are
/// built over the whole surface exactly like the hook's; for fills it can differ from the
/// bounded mask of `fill` by a stray 1/16 sliver next to the path's bounding box.)
fn coverage_of(op: &Op, ctm: &Mat, w: i32, h: i32) -> Option<Vec<u8>> {
    let n = (w * h) as usize;
    let t = mk::mat(ctm);
    let singular = t.inverse().is_none();
    let observe = |draw: &dyn Fn(&mut DrawTarget, &DrawOptions), aa: bool| -> Vec<u8> {
        if singular {
            return vec![0; n];
        }
        let mut dt = DrawTarget::new(w, h);
        dt.set_transform(&t);
        let o = DrawOptions { blend_mode: BlendMode::SrcOver, alpha: 1., antialias: if aa { AntialiasMode::Gray } else { AntialiasMode::None } };
        draw(&mut dt, &o);
        dt.get_data().iter().map(|p| (p >> 24) as u8).collect()
    };
    match op {
        Op::Fill { path, opts, .. } => Some(observe(&|dt, o| dt.fill(&mk::build_path(path), &white(), o), opts.aa)),
        // rectangles: through the general route (a rectangular path), never through the
        // integer fast path of fill_rect, whose equivalence is what C14 is about
        Op::FillRect { rect, opts, .. } => Some(observe(&|dt, o| dt.fill(&rect_path(rect[0].0, rect[1].0, rect[2].0, rect[3].0), &white(), o), opts.aa)),
        Op::DrawImageAt { x, y, img, opts } => Some(observe(&|dt, o| dt.fill(&rect_path(x.0, y.0, img.w as f32, img.h as f32), &white(), o), opts.aa)),
        Op::DrawImageSized { w: rw, h: rh, x, y, opts, .. } => Some(observe(&|dt, o| dt.fill(&rect_path(x.0, y.0, rw.0, rh.0), &white(), o), opts.aa)),
        Op::Stroke { path, style, opts, .. } => Some(observe(&|dt, o| dt.stroke(&mk::build_path(path), &white(), &mk::build_style(style), o), opts.aa)),
        Op::Mask { x, y, w: mw, h: mh, data, .. } => {
            if singular {
                return Some(vec![0; n]);
            }
            let mut cov = vec![0u8; n];
            for py in 0..h {
                for px in 0..w {
                    let (mx, my) = (px - x, py - y);
                    if mx >= 0 && my >= 0 && mx < *mw && my < *mh {
                        cov[(py * w + px) as usize] = data[(my * mw + mx) as usize];
                    }
                }
            }
            Some(cov)
        }
        Op::Clear { .. } => Some(vec![255; n]),
        _ => None,
    }
}

/// the colour the source has at every pixel (scaled by the global alpha), w*h words
fn source_field(op: &Op, ctm: &Mat, w: i32, h: i32) -> Option<Vec<u32>> {
    let n = (w * h) as usize;
    if let Op::Clear { argb } = op {
        // clear() does not look at the transform
        let c = SolidSource { a: argb[0], r: argb[1], g: argb[2], b: argb[3] }.to_u32();
        return Some(vec![c; n]);
    }
    let inv = match mk::mat(ctm).inverse() {
        Some(i) => i,
        None => return Some(vec![0; n]),
    };
    let render = |src: &SrcSpec, alpha: f32| -> Vec<u32> {
        let mut s = src.clone();
        if !s.is_solid() {
            s.pre = Some(mk::unmat(&inv));
        }
        let mut dt = DrawTarget::new(w, h);
        let o = DrawOptions { blend_mode: BlendMode::Src, alpha, antialias: AntialiasMode::Gray };
        dt.fill_rect(0., 0., w as f32, h as f32, &mk::build_source(&s), &o);
        dt.into_vec()
    };
    match op {
        Op::Fill { src, opts, .. } | Op::FillRect { src, opts, .. } | Op::Stroke { src, opts, .. } => Some(render(src, opts.alpha.0)),
        Op::Mask { src, .. } => Some(render(src, 1.)),
        Op::DrawImageAt { x, y, img, opts } => {
            let xf = Transform::translation(-x.0, -y.0).then_scale(img.w as f32 / img.w as f32, img.h as f32 / img.h as f32);
            let s = SrcSpec { kind: SrcKind::Image { img: img.clone(), repeat: false, bilinear: true, xf: mk::unmat(&xf) }, pre: None, user_xf: None };
            Some(render(&s, opts.alpha.0))
        }
        Op::DrawImageSized { w: rw, h: rh, x, y, img, opts } => {
            let xf = Transform::translation(-x.0, -y.0).then_scale(img.w as f32 / rw.0, img.h as f32 / rh.0);
            let s = SrcSpec { kind: SrcKind::Image { img: img.clone(), repeat: false, bilinear: true, xf: mk::unmat(&xf) }, pre: None, user_xf: None };
            Some(render(&s, opts.alpha.0))
        }
        _ => None,
    }
}

/// Splits a path into its subpaths if they are all polygons (lines only) and their device-space
/// bounding boxes are pairwise at least two pixels apart; None otherwise.
fn disjoint_polygons(path: &PathSpec, ctm: &Mat) -> Option<Vec<PathSpec>> {
    if path.stroke_first.is_some() || path.xf.is_some() || path.flatten.is_some() {
        return None;
    }
    let t = mk::mat(ctm);
    t.inverse()?;
    let mut parts: Vec<Vec<Seg>> = Vec::new();
    for s in &path.segs {
        match s {
            Seg::M(..) | Seg::Rect(..) => parts.push(vec![s.clone()]),
            Seg::L(..) | Seg::Z => match parts.last_mut() {
                Some(p) if !matches!(p[0], Seg::Rect(..)) => p.push(s.clone()),
                // a line without a current subpath, or after a rect: not worth untangling
                _ => return None,
            },
            _ => return None,
        }
    }
    if parts.len() < 2 {
        return None;
    }
    let mut boxes = Vec::new();
    for p in &parts {
        let mut b = [f32::INFINITY, f32::INFINITY, f32::NEG_INFINITY, f32::NEG_INFINITY];
        let mut add = |x: f32, y: f32| {
            let q = t.transform_point(Point::new(x, y));
            b = [b[0].min(q.x), b[1].min(q.y), b[2].max(q.x), b[3].max(q.y)];
        };
        for s in p {
            match s {
                Seg::M(x, y) | Seg::L(x, y) => add(x.0, y.0),
                Seg::Rect(x, y, w, h) => {
                    add(x.0, y.0);
                    add(x.0 + w.0, y.0);
                    add(x.0, y.0 + h.0);
                    add(x.0 + w.0, y.0 + h.0);
                }
                _ => {}
            }
        }
        if !b.iter().all(|v| v.is_finite()) {
            return None;
        }
        boxes.push(b);
    }
    for i in 0..boxes.len() {
        for j in 0..i {
            let (a, b) = (boxes[i], boxes[j]);
            let apart = a[2] + 2. <= b[0] || b[2] + 2. <= a[0] || a[3] + 2. <= b[1] || b[3] + 2. <= a[1];
            if !apart {
                return None;
            }
        }
    }
    Some(parts.into_iter().map(|segs| PathSpec::new(path.evenodd, segs)).collect())
}

/// the subpaths of a path, each as a path of its own (None: fewer than two, or the path does not
/// begin with a MoveTo / rectangle)
fn stroke_parts(path: &PathSpec) -> Option<Vec<PathSpec>> {
    if path.stroke_first.is_some() || path.xf.is_some() || path.flatten.is_some() {
        return None;
    }
    let mut parts: Vec<Vec<Seg>> = Vec::new();
    for s in &path.segs {
        match s {
            Seg::M(..) | Seg::Rect(..) => parts.push(vec![s.clone()]),
            _ => match parts.last_mut() {
                // after a rectangle the cursor is back at its first corner; whatever follows
                // continues that subpath
                Some(p) => p.push(s.clone()),
                None => return None,
            },
        }
    }
    if parts.len() < 2 {
        return None;
    }
    Some(parts.into_iter().map(|segs| PathSpec::new(path.evenodd, segs)).collect())
}

fn op_blend(op: &Op) -> u8 {
    match op {
        Op::Clear { .. } => BLEND_SRC,
        Op::Mask { .. } => BLEND_SRC_OVER,
        _ => op.blend().unwrap_or(BLEND_SRC_OVER),
    }
}

struct ClipView {
    inside: Vec<bool>,
    k: Option<Vec<u8>>,
}

fn envelope_oracle(prop: Prop) -> &'static str {
    match prop {
        Prop::C05 => "c05.clip-coverage-where-the-clip-path-cannot-be",
        _ => "c02.clip-coverage-where-the-clip-path-cannot-be",
    }
}

fn clip_view(clips: &[ClipModel], extent: Option<[i32; 4]>, w: i32, h: i32) -> ClipView {
    let n = (w * h) as usize;
    let mut inside = vec![true; n];
    if let Some(r) = extent {
        for py in 0..h {
            for px in 0..w {
                if !(px >= r[0] && px < r[2] && py >= r[1] && py < r[3]) {
                    inside[(py * w + px) as usize] = false;
                }
            }
        }
    }
    let mut k: Option<Vec<u8>> = None;
    for c in clips {
        match c {
            ClipModel::Rect(r) => {
                for py in 0..h {
                    for px in 0..w {
                        if !(px >= r[0] && px < r[2] && py >= r[1] && py < r[3]) {
                            inside[(py * w + px) as usize] = false;
                        }
                    }
                }
            }
            ClipModel::Mask(m) => {
                k = Some(match k {
                    None => m.clone(),
                    Some(prev) => prev.iter().zip(m.iter()).map(|(a, b)| muldiv255(*b as u32, *a as u32) as u8).collect(),
                });
            }
        }
    }
    ClipView { inside, k }
}

// ---------------------------------------------------------------------------
// the checked execution

pub fn run_tower(prop: Prop, h: &History, st: &mut Stats) -> Outcome {
    let surf = &h.surfaces[0];
    let (w, hh) = (surf.w, surf.h);
    let n = (w * hh) as usize;
    let budget = h.tick_budget;
    let mut levels: Vec<Level> = vec![Level { world: World::new(&h.surfaces[..1]), base: None, layer: None, rect: None }];
    let mut clips: Vec<ClipModel> = Vec::new();
    let mut brackets: Vec<Br> = Vec::new();
    let mut checked_draws = 0u64;
    let mut checked_pops = 0u64;
    let mut max_clip_depth = 0usize;
    let mut max_layer_depth = 0usize;
    let mut changed_while_clipped = false;
    let mut path_clip_used = false;
    let mut partial_pixels = 0u64;

    macro_rules! run_all {
        ($step:expr, $i:expr) => {{
            let mut res: Result<(), mk::PanicInfo> = Ok(());
            for lv in levels.iter_mut() {
                raqote::verif::set_buggify(h.buggify);
                let r = exec(&mut lv.world, $step, budget, st);
                raqote::verif::set_buggify(0);
                if let Err(pi) = r {
                    res = Err(pi);
                    break;
                }
            }
            if let Err(pi) = res {
                // C06: a layer under an empty clip must be harmless
                if prop == Prop::C06 {
                    let cv = clip_view(&clips, None, w, hh);
                    let empty = !cv.inside.iter().any(|b| *b);
                    let in_layer = brackets.iter().any(|b| matches!(b, Br::Layer)) || matches!($step.op, Op::PushLayer { .. });
                    // ... unless the call panics all by itself (geometry beyond the working range
                    // overflows the rasteriser's fixed point in any state: C07's domain, not this
                    // clause; a false alarm under VERIF_SEED=67, DESIGN 10.2 item 10)
                    let self_inflicted = matches!($step.op, Op::Fill { .. } | Op::FillRect { .. } | Op::Stroke { .. } | Op::Clear { .. } | Op::Mask { .. } | Op::DrawImageAt { .. } | Op::DrawImageSized { .. } | Op::PushClip(_))
                        && mk::panics_on_plain_target(w, hh, &levels[0].world.shadows[0].ctm, &$step.op, budget);
                    if empty && in_layer && pi.budget_site.is_none() && !self_inflicted {
                        return Outcome::Violation(Violation {
                            oracle: "c06.layer-under-empty-clip-panicked",
                            step: $i,
                            detail: format!("{} with a layer under an empty clip: {}", $step.op.name(), panic_desc(&pi)),
                            panic: Some(pi),
                        });
                    }
                }
                st.abort(&panic_class(&pi));
                return Outcome::Aborted(panic_desc(&pi));
            }
        }};
    }

    for (i, step) in h.steps.iter().enumerate() {
        if step.surf != 0 {
            continue;
        }
        let top = levels.len() - 1;
        let ctm = levels[top].world.shadows[0].ctm;
        match &step.op {
            Op::SetTransform(_) => run_all!(step, i),
            Op::PushClipRect(r) => {
                run_all!(step, i);
                clips.push(ClipModel::Rect(*r));
                brackets.push(Br::Clip);
            }
            Op::PushClip(p) => {
                let cov = match mk::guarded(budget, || {
                    let mut dt = DrawTarget::new(w, hh);
                    dt.set_transform(&mk::mat(&ctm));
                    dt.verif_coverage(&mk::build_path(p), AntialiasMode::Gray)
                }) {
                    Ok(c) => c,
                    Err(pi) => {
                        st.abort(&panic_class(&pi));
                        return Outcome::Aborted(format!("canonical clip coverage: {}", panic_desc(&pi)));
                    }
                };
                if matches!(prop, Prop::C02 | Prop::C05) {
                    if let Some(d) = crate::geo::first_impossible(&cov, &mk::build_path(p), &mk::mat(&ctm), w, hh) {
                        return viol(envelope_oracle(prop), i, format!("push_clip: {}", d));
                    }
                    st.count("geometric_envelope_checked");
                }
                run_all!(step, i);
                clips.push(ClipModel::Mask(cov));
                brackets.push(Br::Clip);
                path_clip_used = true;
            }
            Op::PopClip => {
                // the most recently pushed clip, which need not be the innermost bracket
                if let Some(bi) = brackets.iter().rposition(|b| matches!(b, Br::Clip)) {
                    if bi + 1 != brackets.len() {
                        st.count("perturbation.pop_clip_below_open_layer");
                    }
                    run_all!(step, i);
                    clips.pop();
                    brackets.remove(bi);
                }
            }
            Op::PushLayer { opacity, blend, plain } => {
                run_all!(step, i);
                let lv = &mut levels[top];
                lv.base = Some(lv.world.surfs[0].pixels().to_vec());
                lv.layer = Some((opacity.0, if *plain { BLEND_SRC_OVER } else { *blend }));
                // the extent of the layer: every clip rectangle in force now, on the surface
                let mut ext = [0, 0, w, hh];
                for c in &clips {
                    if let ClipModel::Rect(r) = c {
                        ext = [ext[0].max(r[0]), ext[1].max(r[1]), ext[2].min(r[2]), ext[3].min(r[3])];
                    }
                }
                if let Some(outer) = lv.rect {
                    // (a nested layer is not limited by its parent's extent while it is drawn
                    // into, only when it is composited into the parent; `outer` is therefore
                    // not intersected here)
                    let _ = outer;
                }
                // the group twin: transparent, same transform, same clip stack, and underneath
                // everything a clip rectangle standing for the layer's extent, which stays
                // even if the clips it was derived from are popped before the layer
                let mut sh = lv.world.shadows[0].clone();
                sh.brackets.retain(|b| !matches!(b.0, mk::Bracket::Layer));
                if let Some((mk::Bracket::ClipRect(_), _)) = sh.brackets.first() {
                    // the parent twin's own hidden extent is not part of the visible clip stack
                    if lv.rect.is_some() {
                        sh.brackets.remove(0);
                    }
                }
                sh.brackets.insert(0, (mk::Bracket::ClipRect(ext), mat_identity()));
                let fresh = match mk::guarded(budget, || World::fresh_like(w, hh, &vec![0; n], &sh)) {
                    Ok(f) => f,
                    Err(pi) => {
                        st.abort(&panic_class(&pi));
                        return Outcome::Aborted(format!("group twin set-up: {}", panic_desc(&pi)));
                    }
                };
                let mut world = World::new(&[]);
                world.surfs.push(fresh);
                world.shadows.push(sh);
                levels.push(Level { world, base: None, layer: None, rect: Some(ext) });
                brackets.push(Br::Layer);
                st.count("twin.group_twins");
            }
            Op::PopLayer => {
                // the innermost open layer, which need not be the innermost bracket
                let bi = match brackets.iter().rposition(|b| matches!(b, Br::Layer)) {
                    Some(bi) if levels.len() >= 2 => bi,
                    _ => continue,
                };
                if bi + 1 != brackets.len() {
                    st.count("perturbation.pop_layer_with_clips_open_inside");
                }
                let group = levels.pop().unwrap();
                let group_px = group.world.surfs[0].pixels().to_vec();
                let below = levels.len() - 1;
                let prev = levels[below].world.surfs[0].pixels().to_vec();
                let (opacity, blend) = levels[below].layer.unwrap();
                run_all!(step, i);
                brackets.remove(bi);
                levels[below].base = None;
                levels[below].layer = None;
                let obs = levels[below].world.surfs[0].pixels();
                let cbyte = (opacity * 255. + 0.5) as u8;
                let cv = clip_view(&clips, levels[below].rect, w, hh);
                if matches!(prop, Prop::C02 | Prop::C03 | Prop::C05 | Prop::C06) {
                    checked_pops += 1;
                    for p in 0..n {
                        let c = if cv.inside[p] { cbyte } else { 0 };
                        let k = cv.k.as_ref().map(|k| k[p]);
                        let zero = c == 0 || k == Some(0);
                        if prop == Prop::C02 {
                            // pixels the group never touched (and whose blend with a transparent
                            // pixel is the destination itself) are outside the drawn shape too
                            let untouched = group_px[p] == 0 && blend < 24 && kernel::blend_px(blend, 0, prev[p]) == prev[p];
                            if !zero && !untouched {
                                continue;
                            }
                            if obs[p] != prev[p] {
                                return viol(
                                    "c02.pop-layer-changed-outside",
                                    i,
                                    format!(
                                        "pop_layer(opacity {}, blend {}): pixel ({},{}) is outside what was drawn into the layer (group pixel {:08x}, clip inside={} k={:?}) but changed {:08x} -> {:08x}",
                                        opacity, BLEND_NAMES[blend as usize % 28], p as i32 % w, p as i32 / w, group_px[p], cv.inside[p], k, prev[p], obs[p]
                                    ),
                                );
                            }
                            continue;
                        }
                        match kernel::judge(obs[p], prev[p], group_px[p], c, k, blend) {
                            Verdict::Ok => {}
                            v => {
                                let oracle = match prop {
                                    Prop::C02 => "c02.pop-layer-changed-outside",
                                    Prop::C03 => "c03.pop-layer-kernel",
                                    Prop::C05 => "c05.layer-drawn-under-clip-differs-from-group",
                                    _ => "c06.pop-composite",
                                };
                                return viol(
                                    oracle,
                                    i,
                                    format!(
                                        "pop_layer(opacity {} -> byte {}, blend {}): pixel ({},{}) prev {:08x} group {:08x} clip inside={} k={:?} observed {:08x}: {:?}",
                                        opacity, cbyte, BLEND_NAMES[blend as usize % 28], p as i32 % w, p as i32 / w, prev[p], group_px[p], cv.inside[p], k, obs[p], v
                                    ),
                                );
                            }
                        }
                    }
                }
            }
            op if op.is_draw() => {
                let prev = levels[top].world.surfs[0].pixels().to_vec();
                let need_cov = matches!(prop, Prop::C02 | Prop::C03);
                let need_src = prop == Prop::C03;
                let cov = if need_cov {
                    match mk::guarded(budget, || coverage_of(op, &ctm, w, hh)) {
                        Ok(c) => c,
                        Err(pi) => {
                            st.abort(&panic_class(&pi));
                            return Outcome::Aborted(format!("canonical coverage: {}", panic_desc(&pi)));
                        }
                    }
                } else {
                    None
                };
                let srcf = if need_src {
                    match mk::guarded(budget, || source_field(op, &ctm, w, hh)) {
                        Ok(s) => s,
                        Err(pi) => {
                            st.abort(&panic_class(&pi));
                            return Outcome::Aborted(format!("canonical source field: {}", panic_desc(&pi)));
                        }
                    }
                } else {
                    None
                };
                // "the source colour at the pixel scaled by the global alpha": the source field at
                // alpha must be the field at alpha 1 scaled (relative check, 3/255 per channel),
                // and a solid source at alpha 1 is exactly its colour word
                if let (Some(sf), Some(o)) = (&srcf, get_opts(op)) {
                    let a = o.alpha.0;
                    if mk::mat(&ctm).inverse().is_some() {
                        let mut op1 = op.clone();
                        set_opts(&mut op1, |x| x.alpha = F(1.));
                        let full = if a != 1. {
                            match mk::guarded(budget, || source_field(&op1, &ctm, w, hh)) {
                                Ok(s) => s,
                                Err(pi) => {
                                    st.abort(&panic_class(&pi));
                                    return Outcome::Aborted(format!("canonical source field: {}", panic_desc(&pi)));
                                }
                            }
                        } else {
                            Some(sf.clone())
                        };
                        if let Some(full) = full {
                            if let Some(solid) = get_src(op).and_then(|s| mk::solid_of(&s.kind)) {
                                if let Some(px) = full.iter().position(|p| *p != solid.to_u32()) {
                                    return viol("c03.solid-source-colour", i, format!("{}: a solid source {:08x} at alpha 1 shades pixel {} as {:08x}", op.name(), solid.to_u32(), px, full[px]));
                                }
                            }
                            if a >= 0. && a < 1. {
                                for px in 0..n {
                                    for c in 0..4 {
                                        let sh = 8 * c;
                                        let f = ((full[px] >> sh) & 0xff) as f32;
                                        let g = ((sf[px] >> sh) & 0xff) as f32;
                                        if (g - f * a).abs() > kernel::TOL {
                                            return viol(
                                                "c03.source-not-scaled-by-alpha",
                                                i,
                                                format!("{}: source colour at pixel ({},{}) is {:08x} at alpha 1 and {:08x} at alpha {}", op.name(), px as i32 % w, px as i32 / w, full[px], sf[px], a),
                                            );
                                        }
                                    }
                                }
                                st.count("c03.alpha_scaling_checked");
                            }
                        }
                    }
                }
                // C05: the same call without any clip on a fresh target holding the same pixels
                let unclipped = if prop == Prop::C05 && !clips.is_empty() {
                    let mut sh = mk::Shadow::new();
                    sh.ctm = ctm;
                    match mk::guarded(budget, || {
                        let mut uw = World::new(&[]);
                        uw.surfs.push(World::fresh_like(w, hh, &prev, &sh));
                        uw.shadows.push(sh.clone());
                        raqote::verif::set_buggify(0);
                        uw.apply(step);
                        uw.surfs[0].pixels().to_vec()
                    }) {
                        Ok(u) => {
                            st.count("twin.unclipped_draws");
                            Some(u)
                        }
                        Err(pi) => {
                            st.abort(&panic_class(&pi));
                            return Outcome::Aborted(format!("unclipped twin: {}", panic_desc(&pi)));
                        }
                    }
                } else {
                    None
                };
                run_all!(step, i);
                if step.is_nop() {
                    st.count("perturbation.nop_draw");
                }
                let obs = levels[top].world.surfs[0].pixels();
                let cv = clip_view(&clips, levels[top].rect, w, hh);
                let mode = op_blend(op);
                if !clips.is_empty() && obs != &prev[..] {
                    changed_while_clipped = true;
                }
                if step.is_nop() && matches!(prop, Prop::C02 | Prop::C03) {
                    if let Some(d) = first_diff(&prev, obs, w) {
                        return viol(
                            if prop == Prop::C02 { "c02.nop-changed-pixels" } else { "c03.nop-changed-pixels" },
                            i,
                            format!("{} must draw nothing but changed {}", op.name(), d),
                        );
                    }
                }
                // A path made of polygons whose bounding boxes are apart covers exactly what its
                // polygons cover one by one: where none of them has any coverage the whole path has
                // none either (an edge lost by the rasteriser leaks a span across the gap).
                if let (Some(cov), Op::Fill { path, opts, .. }) = (&cov, op) {
                    if let Some(parts) = disjoint_polygons(path, &ctm) {
                        let mut any = vec![false; n];
                        let mut ok = true;
                        for part in &parts {
                            let pop = Op::Fill { path: part.clone(), src: SrcSpec::solid(255, 255, 255, 255), opts: opts.clone() };
                            match mk::guarded(budget, || coverage_of(&pop, &ctm, w, hh)) {
                                Ok(Some(c)) => {
                                    for p in 0..n {
                                        any[p] |= c[p] != 0;
                                    }
                                }
                                _ => ok = false,
                            }
                        }
                        if ok {
                            st.count("subpath_additivity_checked");
                            for p in 0..n {
                                if cov[p] != 0 && !any[p] {
                                    return viol(
                                        if prop == Prop::C02 { "c02.coverage-outside-every-subpath" } else { "c03.coverage-outside-every-subpath" },
                                        i,
                                        format!("fill: pixel ({},{}) has coverage {} although none of the path's {} separate polygons covers it", p as i32 % w, p as i32 / w, cov[p], parts.len()),
                                    );
                                }
                            }
                        }
                    }
                }
                // The stroke of a path is the union of the strokes of its subpaths (caps, joins and
                // the dash pattern are per subpath): where none of them reaches, not even the
                // neighbouring pixels, the stroke of the whole path has no business either.
                if let (Some(cov), Op::Stroke { path, style, opts, .. }) = (&cov, op) {
                    if let Some(parts) = stroke_parts(path) {
                        let mut near = vec![false; n];
                        let mut ok = true;
                        for part in &parts {
                            let pop = Op::Stroke { path: part.clone(), src: SrcSpec::solid(255, 255, 255, 255), style: style.clone(), opts: opts.clone() };
                            match mk::guarded(budget, || coverage_of(&pop, &ctm, w, hh)) {
                                Ok(Some(c)) => {
                                    for py in 0..hh {
                                        for px in 0..w {
                                            if c[(py * w + px) as usize] != 0 {
                                                for yy in (py - 1).max(0)..=(py + 1).min(hh - 1) {
                                                    for xx in (px - 1).max(0)..=(px + 1).min(w - 1) {
                                                        near[(yy * w + xx) as usize] = true;
                                                    }
                                                }
                                            }
                                        }
                                    }
                                }
                                _ => ok = false,
                            }
                        }
                        if ok {
                            st.count("stroke_subpath_union_checked");
                            for p in 0..n {
                                if cov[p] >= 64 && !near[p] {
                                    return viol(
                                        if prop == Prop::C02 { "c02.stroke-coverage-outside-every-subpath" } else { "c03.stroke-coverage-outside-every-subpath" },
                                        i,
                                        format!("stroke: pixel ({},{}) has coverage {} although the stroke of none of the path's {} subpaths comes within a pixel of it", p as i32 % w, p as i32 / w, cov[p], parts.len()),
                                    );
                                }
                            }
                        }
                    }
                }
                // "coverage by the drawn shape is zero" as far as plain geometry decides it: the
                // canonical render is itself a drawing call, and it must not put coverage where
                // the shape certainly is not (an envelope computed in f64 without the rasteriser)
                if let (Some(cov), Prop::C02) = (&cov, prop) {
                    let t = mk::mat(&ctm);
                    let bad = match op {
                        Op::Fill { path, .. } => crate::geo::first_impossible(cov, &mk::build_path(path), &t, w, hh),
                        Op::FillRect { rect, .. } => crate::geo::first_impossible(cov, &rect_path(rect[0].0, rect[1].0, rect[2].0, rect[3].0), &t, w, hh),
                        Op::DrawImageAt { x, y, img, .. } => crate::geo::first_impossible(cov, &rect_path(x.0, y.0, img.w as f32, img.h as f32), &t, w, hh),
                        Op::DrawImageSized { w: rw, h: rh, x, y, .. } => crate::geo::first_impossible(cov, &rect_path(x.0, y.0, rw.0, rh.0), &t, w, hh),
                        Op::Stroke { path, style, .. } => crate::geo::first_impossible_stroke(cov, &mk::build_path(path), style.width.0, style.miter_limit.0, style.cap % 3 == 1, style.join % 3 == 1, &t, w, hh),
                        _ => None,
                    };
                    if let Some(d) = bad {
                        return viol("c02.coverage-where-the-shape-cannot-be", i, format!("{}: {}", op.name(), d));
                    }
                    if matches!(op, Op::Fill { .. } | Op::FillRect { .. } | Op::DrawImageAt { .. } | Op::DrawImageSized { .. } | Op::Stroke { .. }) {
                        st.count("geometric_envelope_checked");
                    }
                }
                // A dash array of odd length is, by definition, the array repeated twice: the
                // stroke with the doubled array defines the shape.
                if let (Some(cov), Op::Stroke { style, .. }) = (&cov, op) {
                    if style.dash_array.len() % 2 == 1 {
                        let mut op2 = op.clone();
                        if let Op::Stroke { style: s2, .. } = &mut op2 {
                            let d = s2.dash_array.clone();
                            s2.dash_array.extend(d);
                        }
                        if let Ok(Some(c2)) = mk::guarded(budget, || coverage_of(&op2, &ctm, w, hh)) {
                            st.count("odd_dash_array_checked");
                            if let Some(p) = (0..n).find(|p| cov[*p] != c2[*p]) {
                                return viol(
                                    if prop == Prop::C02 { "c02.odd-dash-array-not-doubled" } else { "c03.odd-dash-array-not-doubled" },
                                    i,
                                    format!("stroke: pixel ({},{}) has coverage {} with the odd-length dash array and {} with the same array written out twice", p as i32 % w, p as i32 / w, cov[p], c2[p]),
                                );
                            }
                        }
                    }
                }
                // Without antialiasing only the first of the four sample rows of a pixel row is
                // used: a pixel it paints has non-zero antialiased coverage, and a pixel that is
                // fully covered with antialiasing is painted. A pixel that violates this was
                // written although the shape does not cover it (or the other way round).
                if let (Some(cov), Some(o)) = (&cov, get_opts(op)) {
                    if !o.aa && matches!(op, Op::Fill { .. } | Op::Stroke { .. } | Op::FillRect { .. }) {
                        let mut op_aa = op.clone();
                        set_opts(&mut op_aa, |x| x.aa = true);
                        match mk::guarded(budget, || coverage_of(&op_aa, &ctm, w, hh)) {
                            Ok(Some(gray)) => {
                                st.count("aa_mode_consistency_checked");
                                for p in 0..n {
                                    if (cov[p] != 0 && gray[p] == 0) || (gray[p] == 255 && cov[p] != 255) {
                                        return viol(
                                            if prop == Prop::C02 { "c02.aa-modes-inconsistent" } else { "c03.aa-modes-inconsistent" },
                                            i,
                                            format!("{}: pixel ({},{}) has coverage {} without antialiasing but {} with antialiasing", op.name(), p as i32 % w, p as i32 / w, cov[p], gray[p]),
                                        );
                                    }
                                }
                            }
                            Ok(None) => {}
                            Err(pi) => {
                                st.abort(&panic_class(&pi));
                                return Outcome::Aborted(format!("canonical coverage: {}", panic_desc(&pi)));
                            }
                        }
                    }
                }
                // "... or on which internal fast path was taken": a clip path that covers the whole
                // surface is neutral bit for bit, yet it sends the call through the blitters and
                // row procedures that multiply a clip coverage in (checked at the base level,
                // while no other clip path is in force)
                if prop == Prop::C03 && levels.len() == 1 && cv.k.is_none() && !matches!(op, Op::PopLayer) {
                    let shadow = levels[0].world.shadows[0].clone();
                    match mk::guarded(budget, || mk::draw_under_covering_clip_path(w, hh, &prev, &shadow, op)) {
                        Ok(px) => {
                            st.count("perturbation.neutral_bracket");
                            if let Some(d) = first_diff(&obs, &px, w) {
                                return viol("c03.covering-clip-path-changes-the-result", i, format!("{} [{}]: as drawn vs under one more clip, a path that covers the whole surface: {}", op.name(), BLEND_NAMES[mode as usize % 28], d));
                            }
                        }
                        Err(pi) => {
                            st.abort(&panic_class(&pi));
                            return Outcome::Aborted(format!("covering clip path twin: {}", panic_desc(&pi)));
                        }
                    }
                }
                if let Some(cov) = &cov {
                    checked_draws += 1;
                    for p in 0..n {
                        let c = if cv.inside[p] { cov[p] } else { 0 };
                        let k = cv.k.as_ref().map(|k| k[p]);
                        let zero = c == 0 || k == Some(0);
                        if prop == Prop::C02 {
                            if zero && obs[p] != prev[p] {
                                return viol(
                                    "c02.outside-changed",
                                    i,
                                    format!(
                                        "{} [{}]: pixel ({},{}) has shape coverage {} clip inside={} k={:?} but changed {:08x} -> {:08x}",
                                        op.name(), BLEND_NAMES[mode as usize % 28], p as i32 % w, p as i32 / w, cov[p], cv.inside[p], k, prev[p], obs[p]
                                    ),
                                );
                            }
                            continue;
                        }
                        let s = srcf.as_ref().map(|s| s[p]).unwrap_or(0);
                        if !zero && !(c == 255 && (k.is_none() || k == Some(255))) {
                            partial_pixels += 1;
                        }
                        match kernel::judge(obs[p], prev[p], s, c, k, mode) {
                            Verdict::Ok => {}
                            v => {
                                return viol(
                                    "c03.kernel",
                                    i,
                                    format!(
                                        "{} [{}]: pixel ({},{}) prev {:08x} source {:08x} coverage {} clip inside={} k={:?} observed {:08x}: {:?}",
                                        op.name(), BLEND_NAMES[mode as usize % 28], p as i32 % w, p as i32 / w, prev[p], s, cov[p], cv.inside[p], k, obs[p], v
                                    ),
                                );
                            }
                        }
                    }
                }
                if let Some(u) = &unclipped {
                    checked_draws += 1;
                    for p in 0..n {
                        let k = cv.k.as_ref().map(|k| k[p]);
                        if !cv.inside[p] || k == Some(0) {
                            if obs[p] != prev[p] {
                                return viol(
                                    "c05.outside-clip-changed",
                                    i,
                                    format!("{}: pixel ({},{}) is outside the intersection of the clip stack (inside rects={} k={:?}) but changed {:08x} -> {:08x}", op.name(), p as i32 % w, p as i32 / w, cv.inside[p], k, prev[p], obs[p]),
                                );
                            }
                        } else if k.is_none() || k == Some(255) {
                            if obs[p] != u[p] {
                                return viol(
                                    "c05.inside-differs-from-unclipped",
                                    i,
                                    format!("{}: pixel ({},{}) is fully inside every clip but is {:08x}, the unclipped drawing gives {:08x} (previous {:08x})", op.name(), p as i32 % w, p as i32 / w, obs[p], u[p], prev[p]),
                                );
                            }
                        } else {
                            partial_pixels += 1;
                            let kk = k.unwrap() as f32 / 255.;
                            for c in 0..4 {
                                let sh = 8 * c;
                                let a = ((prev[p] >> sh) & 0xff) as f32;
                                let b = ((u[p] >> sh) & 0xff) as f32;
                                let o = ((obs[p] >> sh) & 0xff) as f32;
                                if (o - (a + (b - a) * kk)).abs() > kernel::TOL {
                                    return viol(
                                        "c05.partial-clip-out-of-tolerance",
                                        i,
                                        format!("{}: pixel ({},{}) clip coverage {} previous {:08x} unclipped {:08x} observed {:08x}", op.name(), p as i32 % w, p as i32 / w, k.unwrap(), prev[p], u[p], obs[p]),
                                    );
                                }
                            }
                        }
                    }
                }
            }
            _ => {}
        }
        max_clip_depth = max_clip_depth.max(clips.len());
        max_layer_depth = max_layer_depth.max(levels.len() - 1);
        // monitors on every level
        let last = levels.len() - 1;
        for (li, lv) in levels.iter().enumerate() {
            let px = lv.world.surfs[0].pixels();
            if li < last {
                if let Some(base) = &lv.base {
                    if prop == Prop::C06 || prop == Prop::C02 {
                        if let Some(d) = first_diff(base, px, w) {
                            return viol(
                                if prop == Prop::C06 { "c06.base-changed-while-layer-open" } else { "c02.base-changed-while-layer-open" },
                                i,
                                format!("{} was issued while a layer is open but the surface under the layer changed: {}", step.op.name(), d),
                            );
                        }
                    }
                }
            }
            if prop == Prop::C18 {
                if let Some(d) = first_invalid(px, w) {
                    return viol("c18.invalid-premultiplied", i, format!("after {} [{}] (level {}): {}", step.op.name(), step.op.blend().map(|b| BLEND_NAMES[b as usize % 28]).unwrap_or("-"), li, d));
                }
            }
            let pfx = match prop {
                Prop::C05 => "c05",
                Prop::C06 => "c06",
                _ => "",
            };
            if !pfx.is_empty() {
                if let Err(v) = check_shadow(&lv.world, 0, pfx, i) {
                    return Outcome::Violation(v);
                }
            }
        }
        if prop == Prop::C18 {
            if let Some(src) = get_src(&step.op) {
                if let Some(s) = mk::solid_of(&src.kind) {
                    if !(s.r <= s.a && s.g <= s.a && s.b <= s.a) {
                        return viol("c18.conversion-invalid", i, format!("colour conversion produced {:?}", s));
                    }
                    st.count("c18.conversions_checked");
                }
            }
        }
    }
    st.add("checked_draws", checked_draws);
    st.add("checked_pops", checked_pops);
    st.add("partial_coverage_pixels", partial_pixels);
    st.max("max_clip_depth", max_clip_depth as u64);
    st.max("max_layer_depth", max_layer_depth as u64);
    st.nontrivial_flag = match prop {
        Prop::C02 | Prop::C03 => checked_draws + checked_pops >= 1,
        Prop::C05 => max_clip_depth >= 2 && path_clip_used && changed_while_clipped,
        Prop::C06 => checked_pops >= 1,
        Prop::C18 => h.steps.iter().filter(|s| s.op.is_draw()).count() >= 2,
    };
    Outcome::Ok
}
