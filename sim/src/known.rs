//! Known findings: genuine defects that are recorded rather than repaired (see DESIGN.md).
//! The file is read only; nothing is ever added to it at run time.

use crate::engine::Violation;
use crate::mk;
use crate::ops::*;

#[derive(Clone, Debug)]
pub struct Finding {
    pub id: String,
    pub what: String,
    /// properties whose checks may meet it ("*" = any)
    pub properties: Vec<String>,
    pub panic_location_contains: Option<String>,
    pub oracle_prefix: Option<String>,
    pub blend_in: Vec<String>,
    pub op_in: Vec<String>,
}

pub fn load(verif_dir: &str) -> Vec<Finding> {
    let path = format!("{}/known_findings.json", verif_dir);
    let text = match std::fs::read_to_string(&path) {
        Ok(t) => t,
        Err(_) => return Vec::new(),
    };
    let v: serde_json::Value = match serde_json::from_str(&text) {
        Ok(v) => v,
        Err(e) => {
            eprintln!("harness error: {} does not parse: {}", path, e);
            std::process::exit(2);
        }
    };
    let strs = |v: &serde_json::Value| -> Vec<String> { v.as_array().map(|a| a.iter().filter_map(|s| s.as_str().map(|s| s.to_string())).collect()).unwrap_or_default() };
    let mut out = Vec::new();
    for f in v["findings"].as_array().cloned().unwrap_or_default() {
        let m = &f["match"];
        out.push(Finding {
            id: f["id"].as_str().unwrap_or("?").to_string(),
            what: f["what"].as_str().unwrap_or("").to_string(),
            properties: strs(&f["properties"]),
            panic_location_contains: m["panic_location_contains"].as_str().map(|s| s.to_string()),
            oracle_prefix: m["oracle_prefix"].as_str().map(|s| s.to_string()),
            blend_in: strs(&m["blend_in"]),
            op_in: strs(&m["op_in"]),
        });
    }
    out
}

/// blend mode in effect for the failing step (for pop_layer: the blend of the matching push)
pub fn effective_blend(h: &History, step: usize) -> Option<u8> {
    let s = h.steps.get(step)?;
    if let Op::PopLayer = s.op {
        let mut depth = 0;
        for j in (0..step).rev() {
            if h.steps[j].surf != s.surf {
                continue;
            }
            match &h.steps[j].op {
                Op::PopLayer => depth += 1,
                Op::PushLayer { blend, plain, .. } => {
                    if depth == 0 {
                        return Some(if *plain { BLEND_SRC_OVER } else { *blend });
                    }
                    depth -= 1;
                }
                _ => {}
            }
        }
        return None;
    }
    s.op.blend()
}

pub fn matches<'a>(findings: &'a [Finding], prop: &str, v: &Violation, h: &History) -> Option<&'a Finding> {
    for f in findings {
        if !f.properties.is_empty() && !f.properties.iter().any(|p| p == "*" || p == prop) {
            continue;
        }
        if let Some(loc) = &f.panic_location_contains {
            match &v.panic {
                Some(p) if mk::short_location(&p.location).contains(loc.as_str()) => {}
                _ => continue,
            }
        }
        if let Some(pre) = &f.oracle_prefix {
            if !v.oracle.starts_with(pre.as_str()) {
                continue;
            }
        }
        if !f.blend_in.is_empty() {
            match effective_blend(h, v.step) {
                Some(b) if f.blend_in.iter().any(|n| n == BLEND_NAMES[b as usize % 28]) => {}
                _ => continue,
            }
        }
        if !f.op_in.is_empty() {
            match h.steps.get(v.step) {
                Some(s) if f.op_in.iter().any(|n| n == s.op.name()) => {}
                _ => continue,
            }
        }
        return Some(f);
    }
    None
}
