//! Coordinator / worker processes, minimisation and replay commands, evidence writer.

use crate::engine::*;
use crate::ops::*;
use crate::rng::{run_seed, Rng};
use crate::{kernel, known, minimise, opt, props};
use serde_json::{json, Value};
use std::io::Write;
use std::time::Instant;

const CHUNK: u64 = 256;
pub const DEFAULT_SEED: u64 = 20261004;

pub fn verif_dir() -> String {
    std::env::var("VERIF_DIR").unwrap_or_else(|_| "/verif".to_string())
}

/// where evidence and replay files go: /verif, except when a scratch copy of the repository is
/// being checked (VERIF_OUT_DIR set by ./check under VERIF_REPO) - the committed evidence only
/// ever describes runs against /repo itself
fn out_dir() -> String {
    std::env::var("VERIF_OUT_DIR").unwrap_or_else(|_| verif_dir())
}

fn io_dir() -> String {
    format!("{}/target/io", verif_dir())
}

fn work_dir() -> String {
    format!("{}/target/work", verif_dir())
}

/// planned number of runs per property and tier (counts, not durations)
pub fn planned_runs(prop: &str, tier: &str) -> u64 {
    let quick = match prop {
        "C02" => 1_200_000,
        "C03" => 1_500_000,
        "C05" => 1_600_000,
        "C06" => 1_500_000,
        "C07" => 800_000,
        "C10" => 300_000,
        "C11" => 2_000_000,
        "C14" => 3_000_000,
        "C15" => 4_000_000,
        "C18" => 2_000_000,
        "C19" => 500_000,
        _ => 10_000,
    };
    if tier == "thorough" {
        quick * 20
    } else {
        quick
    }
}

fn batch_seed() -> u64 {
    match std::env::var("VERIF_SEED") {
        Ok(s) => s.trim().parse::<u64>().unwrap_or_else(|_| {
            // any string is accepted: fold it into an integer
            s.bytes().fold(0xcbf29ce484222325u64, |h, b| (h ^ b as u64).wrapping_mul(0x100000001b3))
        }),
        Err(_) => DEFAULT_SEED,
    }
}

fn tier_of(args: &[String]) -> String {
    opt(args, "--tier").or_else(|| std::env::var("VERIF_TIER").ok()).unwrap_or_else(|| "quick".to_string())
}

#[derive(Clone, Debug)]
struct Found {
    index: u64,
    run_seed: u64,
    oracle: String,
    step: usize,
    detail: String,
}

fn violation_key(v: &Violation) -> String {
    match &v.panic {
        Some(p) if p.budget_site.is_none() => format!("{}@{}", v.oracle, crate::mk::short_location(&p.location)),
        _ => v.oracle.to_string(),
    }
}

fn fnv(h: &mut u64, bytes: &[u8]) {
    for b in bytes {
        *h ^= *b as u64;
        *h = h.wrapping_mul(0x100000001b3);
    }
}

// ---------------------------------------------------------------------------
// worker

pub fn cmd_worker(args: &[String]) -> i32 {
    let prop = opt(args, "--property").expect("--property");
    let tier = tier_of(args);
    let seed: u64 = opt(args, "--seed").expect("--seed").parse().unwrap();
    let runs: u64 = opt(args, "--runs").expect("--runs").parse().unwrap();
    let workers: u64 = opt(args, "--workers").expect("--workers").parse().unwrap();
    let id: u64 = opt(args, "--worker-id").expect("--worker-id").parse().unwrap();
    let out = opt(args, "--out").expect("--out");
    let skip: Vec<u64> = opt(args, "--skip").map(|s| s.split(',').filter_map(|x| x.parse().ok()).collect()).unwrap_or_default();
    let trace = args.iter().any(|a| a == "--trace");
    let hashlog = opt(args, "--hashlog");
    let thorough = tier == "thorough";
    let findings = known::load(&verif_dir());
    let io = io_dir();

    // backstop: the only real clock in the system. A run that burns 60 s of this process's CPU
    // time without finishing (normal cost: a fraction of a millisecond) is reported as a hang of
    // that run. CPU time, not wall time: on a loaded machine a slow but finite run must not be
    // taken for a hang; a run blocked without using the CPU is given 15 minutes of wall time.
    let progress = std::sync::Arc::new(std::sync::atomic::AtomicU64::new(u64::MAX));
    {
        let progress = progress.clone();
        let out = out.clone();
        std::thread::spawn(move || {
            let cpu_s = || -> f64 {
                let mut ru: libc::rusage = unsafe { std::mem::zeroed() };
                unsafe { libc::getrusage(libc::RUSAGE_SELF, &mut ru) };
                (ru.ru_utime.tv_sec + ru.ru_stime.tv_sec) as f64 + (ru.ru_utime.tv_usec + ru.ru_stime.tv_usec) as f64 / 1e6
            };
            let mut last = u64::MAX;
            let mut since = Instant::now();
            let mut cpu_since = cpu_s();
            loop {
                std::thread::sleep(std::time::Duration::from_millis(500));
                let cur = progress.load(std::sync::atomic::Ordering::Relaxed);
                if cur != last {
                    last = cur;
                    since = Instant::now();
                    cpu_since = cpu_s();
                } else if cur != u64::MAX && cur != u64::MAX - 1 && (cpu_s() - cpu_since >= 60. || since.elapsed().as_secs() >= 900) {
                    let _ = std::fs::write(format!("{}.hang", out), format!("{}", cur));
                    std::process::exit(97);
                }
            }
        });
    }

    let mut st = Stats::new();
    let mut hashes: Vec<u64> = Vec::new();
    let mut found: Option<(Found, History)> = None;
    let mut log = String::new();
    let nchunks = (runs + CHUNK - 1) / CHUNK;
    let mut chunk = id;
    'outer: while chunk < nchunks {
        let lo = chunk * CHUNK;
        let hi = ((chunk + 1) * CHUNK).min(runs);
        for index in lo..hi {
            if skip.contains(&index) {
                st.abort("process-died-or-hung (skipped on re-run)");
                continue;
            }
            progress.store(index, std::sync::atomic::Ordering::Relaxed);
            if trace {
                eprintln!("RUN {}", index);
            }
            let rs = run_seed(seed, index);
            let mut rng = Rng::new(rs);
            let h = props::generate(&prop, &mut rng, thorough);
            let ops_before = st.ops;
            let ticks_before = st.ticks_total;
            let outcome = props::run(&prop, &h, &io, &mut st);
            st.runs += 1;
            if st.nontrivial_flag {
                st.nontrivial += 1;
                hashes.push(h.shape_hash());
                if st.samples.len() < 3 {
                    st.samples.push(format!("run {} seed {:#x}: {}", index, rs, h.summary()));
                    if st.samples.len() == 1 {
                        // one history written out in full (the replay file format of its steps)
                        let full = serde_json::to_string(&h.steps).unwrap_or_default();
                        if full.len() < 6000 {
                            st.samples.push(format!("run {} in full: {}", index, full));
                        }
                    }
                }
            }
            st.nontrivial_flag = false;
            if hashlog.is_some() {
                let mut hh = 0xcbf29ce484222325u64;
                fnv(&mut hh, serde_json::to_string(&h).unwrap().as_bytes());
                fnv(&mut hh, format!("{:?}", outcome).as_bytes());
                fnv(&mut hh, &(st.ops - ops_before).to_le_bytes());
                fnv(&mut hh, &(st.ticks_total - ticks_before).to_le_bytes());
                log.push_str(&format!("{} {:016x}\n", index, hh));
            }
            match outcome {
                Outcome::Ok => {}
                Outcome::Aborted(_) => st.count("runs_aborted"),
                Outcome::Violation(v) => {
                    if let Some(f) = known::matches(&findings, &prop, &v, &h) {
                        *st.known_findings.entry(format!("{}|{}", f.id, f.what)).or_insert(0) += 1;
                        st.count("runs_ended_by_known_finding");
                    } else {
                        found = Some((Found { index, run_seed: rs, oracle: violation_key(&v), step: v.step, detail: v.detail.clone() }, h));
                        break 'outer;
                    }
                }
            }
        }
        chunk += workers;
    }
    progress.store(u64::MAX - 1, std::sync::atomic::Ordering::Relaxed);
    let hash_file = format!("{}.hashes", out);
    let mut bytes = Vec::with_capacity(hashes.len() * 8);
    for h in &hashes {
        bytes.extend_from_slice(&h.to_le_bytes());
    }
    std::fs::write(&hash_file, bytes).expect("write hashes");
    if let Some(path) = hashlog {
        std::fs::write(path, log).expect("write hashlog");
    }
    let result = json!({
        "stats": serde_json::to_value(&st).unwrap(),
        "violation": found.as_ref().map(|(f, _)| json!({"index": f.index, "run_seed": f.run_seed, "oracle": f.oracle, "step": f.step, "detail": f.detail})),
    });
    std::fs::write(&out, serde_json::to_string(&result).unwrap()).expect("write worker result");
    0
}

// ---------------------------------------------------------------------------
// merging of worker statistics (numbers add, "maxes" take the maximum, samples concatenate)

fn merge(into: &mut Value, from: &Value, key: &str) {
    match (into, from) {
        (Value::Object(a), Value::Object(b)) => {
            for (k, v) in b {
                if !a.contains_key(k) {
                    a.insert(k.clone(), v.clone());
                } else {
                    merge(a.get_mut(k).unwrap(), v, k);
                }
            }
        }
        (Value::Array(a), Value::Array(b)) => {
            if key == "state_hashes" {
                let mut set: std::collections::BTreeSet<u64> = a.iter().filter_map(|v| v.as_u64()).collect();
                for v in b {
                    if let Some(x) = v.as_u64() {
                        set.insert(x);
                    }
                }
                *a = set.into_iter().map(|x| json!(x)).collect();
            } else if key == "samples" {
                for v in b {
                    if a.len() < 6 {
                        a.push(v.clone());
                    }
                }
            } else {
                for i in 0..b.len() {
                    if i < a.len() {
                        let s = a[i].as_u64().unwrap_or(0) + b[i].as_u64().unwrap_or(0);
                        a[i] = json!(s);
                    } else {
                        a.push(b[i].clone());
                    }
                }
            }
        }
        (a, b) => {
            if let (Some(x), Some(y)) = (a.as_u64(), b.as_u64()) {
                *a = json!(x + y);
            }
        }
    }
}

fn merge_max(into: &mut Value, from: &Value) {
    if let (Value::Object(a), Value::Object(b)) = (into, from) {
        for (k, v) in b {
            let cur = a.get(k).and_then(|x| x.as_u64()).unwrap_or(0);
            let new = v.as_u64().unwrap_or(0);
            a.insert(k.clone(), json!(cur.max(new)));
        }
    }
}

struct Batch {
    stats: Value,
    found: Option<Found>,
    distinct_nontrivial: u64,
    died: Vec<u64>,
}

fn run_batch(prop: &str, tier: &str, seed: u64, runs: u64, workers: u64) -> Result<Batch, String> {
    let exe = std::env::current_exe().map_err(|e| e.to_string())?;
    let wd = work_dir();
    std::fs::create_dir_all(&wd).map_err(|e| e.to_string())?;
    std::fs::create_dir_all(io_dir()).map_err(|e| e.to_string())?;
    let tag = format!("{}-{}-{}", prop, std::process::id(), seed);
    let mut skip: Vec<u64> = Vec::new();
    let mut died: Vec<u64> = Vec::new();
    let mut results: Vec<Option<Value>> = vec![None; workers as usize];
    let mut pending: Vec<u64> = (0..workers).collect();
    let mut attempts = 0;
    while !pending.is_empty() {
        attempts += 1;
        if attempts > 8 {
            return Err("workers keep dying".into());
        }
        let mut children = Vec::new();
        for id in &pending {
            let out = format!("{}/{}-w{}.json", wd, tag, id);
            let _ = std::fs::remove_file(&out);
            let _ = std::fs::remove_file(format!("{}.hang", out));
            let mut cmd = std::process::Command::new(&exe);
            cmd.args(["worker", "--property", prop, "--tier", tier, "--seed", &seed.to_string(), "--runs", &runs.to_string(), "--workers", &workers.to_string(), "--worker-id", &id.to_string(), "--out", &out]);
            if !skip.is_empty() {
                cmd.args(["--skip", &skip.iter().map(|s| s.to_string()).collect::<Vec<_>>().join(",")]);
            }
            cmd.stdout(std::process::Stdio::null()).stderr(std::process::Stdio::null());
            let child = cmd.spawn().map_err(|e| format!("spawn worker: {}", e))?;
            children.push((*id, child, out));
        }
        let mut next = Vec::new();
        for (id, mut child, out) in children {
            let status = child.wait().map_err(|e| e.to_string())?;
            if status.success() {
                let text = std::fs::read_to_string(&out).map_err(|e| format!("worker {} result: {}", id, e))?;
                let v: Value = serde_json::from_str(&text).map_err(|e| format!("worker {} result: {}", id, e))?;
                results[id as usize] = Some(v);
                continue;
            }
            // the worker died (signal, abort, stack overflow) or its backstop fired: find the run
            let culprit = if status.code() == Some(97) {
                std::fs::read_to_string(format!("{}.hang", out)).ok().and_then(|s| s.trim().parse::<u64>().ok())
            } else {
                // deterministic: run it again with a trace of run indices
                let mut cmd = std::process::Command::new(&exe);
                cmd.args(["worker", "--property", prop, "--tier", tier, "--seed", &seed.to_string(), "--runs", &runs.to_string(), "--workers", &workers.to_string(), "--worker-id", &id.to_string(), "--out", &out, "--trace"]);
                if !skip.is_empty() {
                    cmd.args(["--skip", &skip.iter().map(|s| s.to_string()).collect::<Vec<_>>().join(",")]);
                }
                cmd.stdout(std::process::Stdio::null());
                let o = cmd.output().map_err(|e| e.to_string())?;
                let err = String::from_utf8_lossy(&o.stderr);
                err.lines().rev().find_map(|l| l.strip_prefix("RUN ").and_then(|n| n.trim().parse::<u64>().ok()))
            };
            match culprit {
                Some(c) => {
                    died.push(c);
                    skip.push(c);
                    // C07 owns process deaths and hangs: the first one is the violation, there is
                    // no point in completing this worker's share. Other properties skip the run.
                    if prop != "C07" {
                        next.push(id);
                    }
                }
                None => return Err(format!("worker {} failed ({:?}) and the failing run could not be identified", id, status)),
            }
        }
        pending = next;
    }
    // merge in worker order (each worker's statistics are sums over a fixed set of runs, so the
    // result does not depend on the order, nor on the number of workers)
    let mut stats = json!({});
    let mut found: Option<Found> = None;
    let mut all_hashes: Vec<u64> = Vec::new();
    for id in 0..workers {
        let v = match results[id as usize].take() {
            Some(v) => v,
            None => continue, // a C07 worker that died: its run is reported through `died`
        };
        let s = &v["stats"];
        let mut s_nomax = s.clone();
        let maxes = s_nomax.as_object_mut().unwrap().remove("maxes").unwrap_or(json!({}));
        merge(&mut stats, &s_nomax, "");
        if stats.get("maxes").is_none() {
            stats.as_object_mut().unwrap().insert("maxes".into(), json!({}));
        }
        merge_max(stats.get_mut("maxes").unwrap(), &maxes);
        if let Some(f) = v["violation"].as_object() {
            let cand = Found {
                index: f["index"].as_u64().unwrap(),
                run_seed: f["run_seed"].as_u64().unwrap(),
                oracle: f["oracle"].as_str().unwrap().to_string(),
                step: f["step"].as_u64().unwrap() as usize,
                detail: f["detail"].as_str().unwrap().to_string(),
            };
            if found.as_ref().map(|x| cand.index < x.index).unwrap_or(true) {
                found = Some(cand);
            }
        }
        let out = format!("{}/{}-w{}.json", wd, tag, id);
        if let Ok(bytes) = std::fs::read(format!("{}.hashes", out)) {
            for c in bytes.chunks_exact(8) {
                all_hashes.push(u64::from_le_bytes([c[0], c[1], c[2], c[3], c[4], c[5], c[6], c[7]]));
            }
        }
        let _ = std::fs::remove_file(format!("{}.hashes", out));
        let _ = std::fs::remove_file(&out);
    }
    all_hashes.sort_unstable();
    all_hashes.dedup();
    Ok(Batch { stats, found, distinct_nontrivial: all_hashes.len() as u64, died })
}

fn rule_text(prop: &str) -> &'static str {
    match prop {
        "C02" => "histories of 1-10 calls (all eight drawing calls, 28 blend modes weighted to the destructive ones, all source kinds, clip stacks, layers, transforms, no-op perturbations) on busy surfaces, generated from the run seed; non-trivial = at least one drawing call or pop_layer was checked pixel by pixel against coverage and full-stack clip; distinct = distinct (surface sizes, call kinds, blend modes, no-op flags) sequences",
        "C03" => "histories of 1-10 calls with partial coverage (AA edges, masks, layer opacities, partially covering clip paths), buggify coins on a third of the runs; non-trivial = at least one call judged by the per-pixel kernel; distinct = distinct call-shape sequences",
        "C05" => "bracket-heavy histories (clip depth up to 5, rect/path pushes in any order, empty/inverted/off-surface rects, layers, transforms); non-trivial = clip depth >= 2 reached with at least one path entry and a pixel changed while a clip was open; distinct = distinct call-shape sequences",
        "C06" => "layer nestings up to depth 3 under rect/path/empty clips with clear, clip and transform changes inside; non-trivial = at least one pop_layer was compared against the group twin through the kernel; distinct = distinct call-shape sequences",
        "C07" => "call sequences of 1-25 calls over the whole public API on 1-2 surfaces (sizes incl. 0) with degenerate values of every class the statement lists; non-trivial = at least two calls; distinct = distinct call-shape sequences",
        "C10" => "histories of 20-200 calls on one reused target with no-op draws, restarts and twin re-snapshots; non-trivial = at least three drawing calls and at least one no-op perturbation or twin snapshot; distinct = distinct call-shape sequences",
        "C11" => "histories of 3-12 calls under changing transforms (identity, integer/fractional translation, scale, rotation, shear, general, singular); non-trivial = at least one drawing call was executed under a non-identity transform and compared with its canonicalised form; one history in twelve on a small surface is the lattice scenario (gradient and image sources under device = user/k + (k-1)/(2k), k = 2..16, compared with the identity rendering at the pixels (kx, ky)); distinct = distinct call-shape sequences",
        "C14" => "1-8 calls eligible for an optimised route (integer fill_rect incl. zero/negative/off-surface, clear, draw_image_at at integer positions) against the general route (rect path, covering clip, translated-image fill, buggify); non-trivial = at least one eligible call; distinct = distinct call-shape sequences",
        "C15" => "worlds of 2-3 surfaces (sizes incl. 0) with copy/blend/blend-with-alpha transfers between them while transform, clips and layers are open; non-trivial = at least one transfer that changed a destination pixel; distinct = distinct call-shape sequences",
        "C18" => "layered scenes with all blend modes and valid premultiplied inputs (plus multi-surface transfer worlds); non-trivial = at least two drawing calls; distinct = distinct call-shape sequences",
        "C19" => "poke/read through all four views, tear-down/rebuild by four routes, write_png with and without injected file-system faults; non-trivial = at least one view/round-trip/export check executed; distinct = distinct call-shape sequences",
        _ => "",
    }
}

fn assumptions(prop: &str) -> Vec<&'static str> {
    let mut v = vec![
        "sw-composite's public per-pixel primitives (blend::*, over, over_in, lerp) are the reference for blend(source, previous)",
        "euclid, lyon_geom, typed-arena, png are the locked versions of /repo/Cargo.lock and are trusted",
        "exploration: a clean batch is evidence, not proof",
    ];
    match prop {
        "C02" | "C03" | "C05" | "C06" => {
            v.push("single-call primitives (coverage of a shape, colour of a source at a pixel) are taken from the real code on a fresh target in canonical configuration; an error already present there is out of scope (C01/C04/C08/C12/C13)");
            v.push("partial coverage: each channel within 3/255 of the real-valued interpolation; zero and full coverage exact");
            v.push("clip and layer brackets nest LIFO across both stacks");
        }
        "C07" => {
            v.push("inputs stay inside the stated domain; image source transforms keep image coordinates inside the 16.16 range (C13's domain)");
            v.push("extreme uniform scales are explored up to 2^+-40 only (solid sources, user lengths divided by the scale): beyond, squares of user-space lengths overflow f32 and the stroker / dasher break wholesale (DESIGN.md 10.1, incidental)");
        }
        "C11" => {
            v.push("strokes of curved paths under a non-identity CTM are compared geometrically (2 px margin), not bit for bit (the flattening tolerance is an implementation detail)");
            v.push("lattice correspondence of sources: only for sources whose numbers are dyadic and whose linear parts are non-negative (for these every matrix product is exact and the comparison is bit for bit)");
        }
        "C19" => v.push("RLIMIT_FSIZE with SIGXFSZ ignored gives a deterministic short write followed by EFBIG at the chosen byte"),
        _ => {}
    }
    v
}

fn write_evidence(prop: &str, tier: &str, seed: u64, runs: u64, wall: f64, b: &Batch, violations: u64, extra: Value) -> Result<(), String> {
    let s = &b.stats;
    let names = |vals: &Value, names: &[&str]| -> Value {
        let mut m = serde_json::Map::new();
        if let Some(a) = vals.as_array() {
            for (i, n) in names.iter().enumerate() {
                m.insert(n.to_string(), a.get(i).cloned().unwrap_or(json!(0)));
            }
        }
        Value::Object(m)
    };
    let probes = names(&s["probes"], &raqote::verif::PROBE_NAMES);
    let zero_probes: Vec<String> = probes.as_object().unwrap().iter().filter(|(_, v)| v.as_u64() == Some(0)).map(|(k, _)| k.clone()).collect();
    let reached = probes.as_object().unwrap().len() - zero_probes.len();
    let mut perturb = serde_json::Map::new();
    let mut twins = serde_json::Map::new();
    let mut io = serde_json::Map::new();
    let mut other = serde_json::Map::new();
    if let Some(c) = s["counters"].as_object() {
        for (k, v) in c {
            if let Some(r) = k.strip_prefix("perturbation.") {
                perturb.insert(r.to_string(), v.clone());
            } else if let Some(r) = k.strip_prefix("twin.") {
                twins.insert(r.to_string(), v.clone());
            } else if k.starts_with("io_fault.") || k.starts_with("io.") {
                io.insert(k.clone(), v.clone());
            } else {
                other.insert(k.clone(), v.clone());
            }
        }
    }
    perturb.insert("buggify_flips".into(), names(&s["buggify_flips"], &raqote::verif::BUGGIFY_SITE_NAMES));
    let evaluations = s["runs"].as_u64().unwrap_or(0);
    let num = |v: &Value| json!(v.as_u64().unwrap_or(0));
    let mut coverage = json!({
        "evaluations": evaluations,
        "distinct_nontrivial": b.distinct_nontrivial,
        "nontrivial_runs": num(&s["nontrivial"]),
        "rule": rule_text(prop),
        "samples": s["samples"],
        "planned_runs": runs,
        "ops": num(&s["ops"]),
        "runs_per_s": if wall > 0. { (evaluations as f64 / wall) as u64 } else { 0 },
        "seeds_per_hour": if wall > 0. { (evaluations as f64 / wall * 3600.) as u64 } else { 0 },
        "run_index_range": [0, runs],
        "sim_ticks": {"total": s["ticks_total"], "max_per_op": s["maxes"]["ticks_max_per_op"], "budget_per_op": 2_000_000_000u64, "by_site": names(&s["ticks_by_site"], &raqote::verif::TICK_SITE_NAMES)},
        "perturbations_fired": Value::Object(perturb),
        "twins": Value::Object(twins),
        "io_faults": Value::Object(io),
        "counters": Value::Object(other),
        "maxes": s["maxes"],
        "distinct_call_states": s["state_hashes"].as_array().map(|a| a.len()).unwrap_or(0),
        "distinct_call_states_measure": "distinct (set of blitters/shaders/rare branches reached by one call, call kind, blend mode, clip depth, layer depth) tuples over all executed calls of primary and twin executions",
        "probes": {"reached": reached, "of": raqote::verif::N_PROBES, "zero": zero_probes, "hits": probes},
        "aborted_runs": s["aborted"],
        "runs_lost_to_process_death_or_backstop": b.died,
        "known_findings_matched": s["known_findings"],
        "real_components": ["raqote (all of /repo/src, built from the working tree with the `verif` feature)", "sw-composite", "euclid", "lyon_geom", "typed-arena", "png", "the kernel's file system (write_png)"],
        "stubbed_components": [],
        "truncated_by_wall_cap": false,
    });
    if let (Some(c), Some(e)) = (coverage.as_object_mut(), extra.as_object()) {
        for (k, v) in e {
            c.insert(k.clone(), v.clone());
        }
    }
    let ev = json!({
        "property_id": prop,
        "tier": if tier == "thorough" { "thorough" } else { "quick" },
        "seed": seed,
        "level": "exploration",
        "coverage": coverage,
        "assumptions": assumptions(prop),
        "wall_s": wall,
        "violations": violations,
    });
    let dir = format!("{}/evidence", out_dir());
    std::fs::create_dir_all(&dir).map_err(|e| e.to_string())?;
    let path = format!("{}/{}.json", dir, prop);
    std::fs::write(&path, serde_json::to_string_pretty(&ev).unwrap() + "\n").map_err(|e| format!("{}: {}", path, e))
}

// ---------------------------------------------------------------------------
// run (coordinator)

pub fn cmd_run(args: &[String]) -> i32 {
    let prop = match opt(args, "--property") {
        Some(p) => p,
        None => {
            eprintln!("--property required");
            return 2;
        }
    };
    if !props::CLAIMED.contains(&prop.as_str()) {
        eprintln!("property {} is not claimed by this engine", prop);
        return 2;
    }
    let tier = tier_of(args);
    let seed = batch_seed();
    let runs: u64 = opt(args, "--runs").and_then(|s| s.parse().ok()).unwrap_or_else(|| planned_runs(&prop, &tier));
    let workers: u64 = opt(args, "--workers").and_then(|s| s.parse().ok()).unwrap_or_else(|| std::thread::available_parallelism().map(|n| n.get() as u64).unwrap_or(4));
    println!("sim: property={} tier={} VERIF_SEED={} runs={} workers={}", prop, tier, seed, runs, workers);
    match kernel::selftest() {
        Ok(w) => println!("sim: kernel self-test ok (largest deviation of sw-composite's partial-coverage formulas from the real-valued interpolation: {:.3}, tolerance {})", w, kernel::TOL),
        Err(e) => {
            eprintln!("harness error: kernel self-test failed: {}", e);
            return 2;
        }
    }
    let t0 = Instant::now();
    let batch = match run_batch(&prop, &tier, seed, runs, workers) {
        Ok(b) => b,
        Err(e) => {
            eprintln!("harness error: {}", e);
            return 2;
        }
    };
    let wall = t0.elapsed().as_secs_f64();
    let mut violations = 0u64;
    let mut exit = 0;
    let mut extra = json!({});
    // known findings: one line each, exit status unaffected
    if let Some(k) = batch.stats["known_findings"].as_object() {
        for (key, n) in k {
            let mut it = key.splitn(2, '|');
            let id = it.next().unwrap_or("");
            let what = it.next().unwrap_or("");
            println!("KNOWN-FINDING: property={} {} {} (met {} times in this batch)", prop, id, what, n);
        }
    }
    let mut found = batch.found.clone();
    // a run that killed its process or hit the backstop
    if prop == "C07" && found.is_none() {
        if let Some(ix) = batch.died.iter().min() {
            found = Some(Found { index: *ix, run_seed: run_seed(seed, *ix), oracle: "c07.process-died-or-hung".into(), step: 0, detail: "the worker process executing this run died on a signal or made no progress during 60 s of CPU time".into() });
        }
    }
    if let Some(f) = &found {
        violations = 1;
        exit = 1;
        println!("sim: violation in run {} (seed {:#x}) oracle {} at step {}: {}", f.index, f.run_seed, f.oracle, f.step, f.detail);
        let replay_dir = format!("{}/replays", out_dir());
        let _ = std::fs::create_dir_all(&replay_dir);
        let replay = format!("{}/{}-{:016x}.json", replay_dir, prop, f.run_seed);
        let exe = std::env::current_exe().unwrap();
        let status = std::process::Command::new(&exe)
            .args(["minimise", "--property", &prop, "--tier", &tier, "--seed", &seed.to_string(), "--index", &f.index.to_string(), "--out", &replay])
            .status();
        match status {
            Ok(s) if s.success() => {
                // replay in a fresh process: it has to fail the same way
                let o = std::process::Command::new(&exe).args(["replay", &replay]).output();
                match o {
                    Ok(o) => {
                        let text = String::from_utf8_lossy(&o.stdout).to_string();
                        print!("{}", text);
                        if o.status.code() != Some(1) || !text.contains("VIOLATION property=") {
                            eprintln!("harness error: the minimised replay file did not reproduce the violation");
                            return 2;
                        }
                        extra = json!({"violation": {"run_index": f.index, "run_seed": f.run_seed, "oracle": f.oracle, "replay": replay}});
                    }
                    Err(e) => {
                        eprintln!("harness error: replay: {}", e);
                        return 2;
                    }
                }
            }
            other => {
                // minimisation itself died (e.g. the violation is a process abort): report unminimised
                eprintln!("sim: minimiser did not finish ({:?}); writing the unminimised history", other);
                let mut rng = Rng::new(f.run_seed);
                let h = props::generate(&prop, &mut rng, tier == "thorough");
                let r = Replay { format: "raqote-sim-replay 1".into(), property: prop.clone(), oracle: f.oracle.clone(), batch_seed: seed, run_index: f.index, run_seed: f.run_seed, detail: f.detail.clone(), history: h };
                if std::fs::write(&replay, replay_to_text(&r)).is_err() {
                    eprintln!("harness error: cannot write {}", replay);
                    return 2;
                }
                println!("VIOLATION property={} replay={}", prop, replay);
                extra = json!({"violation": {"run_index": f.index, "run_seed": f.run_seed, "oracle": f.oracle, "replay": replay, "minimised": false}});
            }
        }
    }
    if let Err(e) = write_evidence(&prop, &tier, seed, runs, wall, &batch, violations, extra) {
        eprintln!("harness error: evidence: {}", e);
        return 2;
    }
    println!(
        "sim: {} runs ({} non-trivial, {} distinct), {} ops, {:.1} s, {} violation(s)",
        batch.stats["runs"], batch.stats["nontrivial"], batch.distinct_nontrivial, batch.stats["ops"], wall, violations
    );
    exit
}

// ---------------------------------------------------------------------------
// minimise / replay / gen / selftest

pub fn cmd_minimise(args: &[String]) -> i32 {
    let prop = opt(args, "--property").expect("--property");
    let tier = tier_of(args);
    let seed: u64 = opt(args, "--seed").expect("--seed").parse().unwrap();
    let index: u64 = opt(args, "--index").expect("--index").parse().unwrap();
    let out = opt(args, "--out").expect("--out");
    let rs = run_seed(seed, index);
    let mut rng = Rng::new(rs);
    let h = props::generate(&prop, &mut rng, tier == "thorough");
    let findings = known::load(&verif_dir());
    let io = io_dir();
    let mut st = Stats::new();
    // step 1: re-execute from the seed; it has to fail identically
    let first = match props::run(&prop, &h, &io, &mut st) {
        Outcome::Violation(v) => v,
        other => {
            eprintln!("harness error: run {} did not fail again when re-executed from its seed: {:?}", index, other);
            return 2;
        }
    };
    let key = violation_key(&first);
    let mut last_detail = first.detail.clone();
    let mut fails = |cand: &History| -> bool {
        let mut st = Stats::new();
        match props::run(&prop, cand, &io, &mut st) {
            Outcome::Violation(v) => {
                if violation_key(&v) == key && known::matches(&findings, &prop, &v, cand).is_none() {
                    last_detail = v.detail.clone();
                    true
                } else {
                    false
                }
            }
            _ => false,
        }
    };
    let (min, evals) = minimise::minimise(&h, &mut fails, 4000, 90);
    // detail of the minimised form
    let mut st2 = Stats::new();
    let detail = match props::run(&prop, &min, &io, &mut st2) {
        Outcome::Violation(v) => v.detail,
        _ => last_detail.clone(),
    };
    eprintln!("sim: minimised {} steps -> {} steps in {} re-executions", h.steps.len(), min.steps.len(), evals);
    let r = Replay { format: "raqote-sim-replay 1".into(), property: prop.clone(), oracle: key, batch_seed: seed, run_index: index, run_seed: rs, detail, history: min };
    match std::fs::write(&out, replay_to_text(&r)) {
        Ok(()) => 0,
        Err(e) => {
            eprintln!("harness error: {}: {}", out, e);
            2
        }
    }
}

pub fn cmd_replay(args: &[String]) -> i32 {
    let path = match args.get(2) {
        Some(p) => p.clone(),
        None => {
            eprintln!("usage: sim replay <file>");
            return 2;
        }
    };
    let text = match std::fs::read_to_string(&path) {
        Ok(t) => t,
        Err(e) => {
            eprintln!("harness error: {}: {}", path, e);
            return 2;
        }
    };
    let r: Replay = match serde_json::from_str(&text) {
        Ok(r) => r,
        Err(e) => {
            eprintln!("harness error: {} does not parse: {}", path, e);
            return 2;
        }
    };
    if !args.iter().any(|a| a == "--inner") {
        // execute in a child process: a history may kill its process (stack overflow, abort) or
        // hang in code that has no step hook - for C07 that is the violation being replayed
        let exe = std::env::current_exe().unwrap();
        let mut child = match std::process::Command::new(&exe).args(["replay", &path, "--inner"]).stdout(std::process::Stdio::piped()).spawn() {
            Ok(c) => c,
            Err(e) => {
                eprintln!("harness error: {}", e);
                return 2;
            }
        };
        let t0 = Instant::now();
        let status = loop {
            match child.try_wait() {
                Ok(Some(s)) => break Some(s),
                Ok(None) => {
                    if t0.elapsed().as_secs() > 90 {
                        let _ = child.kill();
                        let _ = child.wait();
                        break None;
                    }
                    std::thread::sleep(std::time::Duration::from_millis(20));
                }
                Err(_) => break None,
            }
        };
        let mut out = String::new();
        if let Some(mut so) = child.stdout.take() {
            use std::io::Read;
            let _ = so.read_to_string(&mut out);
        }
        print!("{}", out);
        return match status.and_then(|s| s.code()) {
            Some(c) if c == 0 || c == 1 || c == 2 => c,
            other => {
                if r.property == "C07" {
                    println!("sim: replay of {}: the process executing the history {}", path, match other { None => "died on a signal or made no progress for 90 s".to_string(), Some(c) => format!("exited with status {}", c) });
                    println!("VIOLATION property={} replay={}", r.property, path);
                    1
                } else {
                    println!("NO-VIOLATION property={} replay={} (run abandoned: the process executing it died or hung; C07 owns that)", r.property, path);
                    0
                }
            }
        };
    }
    let mut st = Stats::new();
    let out = props::run(&r.property, &r.history, &io_dir(), &mut st);
    match out {
        Outcome::Violation(v) => {
            println!("sim: replay of {} ({} steps): oracle {} at step {}: {}", path, r.history.steps.len(), violation_key(&v), v.step, v.detail);
            let findings = known::load(&verif_dir());
            if let Some(f) = known::matches(&findings, &r.property, &v, &r.history) {
                println!("KNOWN-FINDING: property={} {} {}", r.property, f.id, f.what);
                return 0;
            }
            for (i, s) in r.history.steps.iter().enumerate() {
                println!("sim:   step {}{}: S{} {}", i, if i == v.step { " <== fails here" } else { "" }, s.surf, serde_json::to_string(&s.op).unwrap_or_default());
            }
            println!("VIOLATION property={} replay={}", r.property, path);
            1
        }
        Outcome::Ok => {
            println!("NO-VIOLATION property={} replay={} (the history now passes)", r.property, path);
            0
        }
        Outcome::Aborted(why) => {
            println!("NO-VIOLATION property={} replay={} (run abandoned: {})", r.property, path, why);
            0
        }
    }
}

pub fn cmd_gen(args: &[String]) -> i32 {
    let prop = opt(args, "--property").expect("--property");
    let tier = tier_of(args);
    let seed: u64 = opt(args, "--seed").map(|s| s.parse().unwrap()).unwrap_or(DEFAULT_SEED);
    let index: u64 = opt(args, "--index").map(|s| s.parse().unwrap()).unwrap_or(0);
    let rs = run_seed(seed, index);
    let mut rng = Rng::new(rs);
    let h = props::generate(&prop, &mut rng, tier == "thorough");
    let r = Replay { format: "raqote-sim-replay 1".into(), property: prop, oracle: String::new(), batch_seed: seed, run_index: index, run_seed: rs, detail: String::new(), history: h };
    print!("{}", replay_to_text(&r));
    std::io::stdout().flush().ok();
    0
}

pub fn cmd_selftest(args: &[String]) -> i32 {
    match args.get(2).map(|s| s.as_str()) {
        Some("kernel") | None => match kernel::selftest() {
            Ok(w) => {
                println!("kernel self-test ok, worst deviation {:.3} (tolerance {})", w, kernel::TOL);
                0
            }
            Err(e) => {
                eprintln!("kernel self-test FAILED: {}", e);
                2
            }
        },
        Some("determinism") => {
            // every property: the same run indices executed by two differently partitioned sets of
            // worker processes must give identical per-run event hashes
            let runs: u64 = opt(args, "--runs").and_then(|s| s.parse().ok()).unwrap_or(2000);
            let seed = batch_seed();
            let exe = std::env::current_exe().unwrap();
            let wd = work_dir();
            let _ = std::fs::create_dir_all(&wd);
            let _ = std::fs::create_dir_all(io_dir());
            let only = opt(args, "--property");
            let mut bad = 0;
            for prop in props::CLAIMED.iter() {
                if let Some(o) = &only {
                    if o != prop {
                        continue;
                    }
                }
                let mut logs: Vec<std::collections::BTreeMap<u64, String>> = Vec::new();
                for workers in [1u64, 7, 16] {
                    let mut children = Vec::new();
                    for id in 0..workers {
                        let out = format!("{}/det-{}-{}-{}.json", wd, prop, workers, id);
                        let hl = format!("{}.hashlog", out);
                        let c = std::process::Command::new(&exe)
                            .args(["worker", "--property", prop, "--tier", "quick", "--seed", &seed.to_string(), "--runs", &runs.to_string(), "--workers", &workers.to_string(), "--worker-id", &id.to_string(), "--out", &out, "--hashlog", &hl])
                            .stdout(std::process::Stdio::null())
                            .stderr(std::process::Stdio::null())
                            .spawn()
                            .unwrap();
                        children.push((c, out, hl));
                    }
                    let mut m = std::collections::BTreeMap::new();
                    for (mut c, out, hl) in children {
                        let _ = c.wait();
                        if let Ok(t) = std::fs::read_to_string(&hl) {
                            for l in t.lines() {
                                let mut it = l.split(' ');
                                if let (Some(i), Some(h)) = (it.next(), it.next()) {
                                    m.insert(i.parse::<u64>().unwrap(), h.to_string());
                                }
                            }
                        }
                        let _ = std::fs::remove_file(&hl);
                        let _ = std::fs::remove_file(format!("{}.hashes", out));
                        let _ = std::fs::remove_file(&out);
                    }
                    logs.push(m);
                }
                let base = &logs[0];
                let mut diffs = 0;
                for other in &logs[1..] {
                    // a worker stops at its first violation, so compare the runs both executed
                    for (i, h) in other {
                        if let Some(b) = base.get(i) {
                            if b != h {
                                diffs += 1;
                            }
                        }
                    }
                }
                println!("determinism {}: {} runs x 3 partitions (1, 7, 16 worker processes), {} diverging event hashes", prop, base.len(), diffs);
                bad += diffs;
            }
            if bad == 0 {
                0
            } else {
                2
            }
        }
        Some(other) => {
            eprintln!("unknown selftest {}", other);
            2
        }
    }
}

/// One short C10 history, meant to be executed under Miri (`cargo +nightly miri run`): the
/// rasteriser keeps raw pointers into an arena that `reset()` frees, so a stale edge is
/// undefined behaviour that need not change a pixel natively but that Miri reports.
/// No file access, no libc calls. Prints one line; exit 0 unless the oracle itself fails.
pub fn cmd_miri_c10(args: &[String]) -> i32 {
    let seed: u64 = opt(args, "--seed").and_then(|s| s.parse().ok()).unwrap_or(DEFAULT_SEED);
    let index: u64 = opt(args, "--index").and_then(|s| s.parse().ok()).unwrap_or(0);
    let max_steps: usize = opt(args, "--max-steps").and_then(|s| s.parse().ok()).unwrap_or(24);
    let h = match opt(args, "--file") {
        Some(path) => {
            let text = std::fs::read_to_string(&path).expect("replay file");
            let r: Replay = serde_json::from_str(&text).expect("replay file parses");
            r.history
        }
        None => miri_c10_history(seed, index, max_steps),
    };
    let mut st = Stats::new();
    let out = crate::pairs::run_c10(&h, &mut st);
    match out {
        Outcome::Violation(v) => {
            println!("MIRI-C10 index {} steps {}: VIOLATION {} at step {}: {}", index, h.steps.len(), v.oracle, v.step, v.detail);
            1
        }
        other => {
            println!("MIRI-C10 index {} steps {} ops {}: {}", index, h.steps.len(), st.ops, match other { Outcome::Ok => "ok".to_string(), Outcome::Aborted(w) => format!("abandoned: {}", w), _ => String::new() });
            0
        }
    }
}

fn miri_c10_history(seed: u64, index: u64, max_steps: usize) -> History {
    let rs = run_seed(seed ^ 0x6d697269, index);
    let mut rng = Rng::new(rs);
    crate::gen::NO_LARGE_SURFACES.store(true, std::sync::atomic::Ordering::Relaxed);
    let mut h = crate::pairs::gen_c10(&mut rng, false);
    // keep it short: Miri is about three orders of magnitude slower than native code
    h.steps.truncate(max_steps);
    minimise::repair(&h)
}

pub fn cmd_gen_miri_c10(args: &[String]) -> i32 {
    let seed: u64 = opt(args, "--seed").and_then(|s| s.parse().ok()).unwrap_or(DEFAULT_SEED);
    let index: u64 = opt(args, "--index").and_then(|s| s.parse().ok()).unwrap_or(0);
    let h = miri_c10_history(seed, index, 24);
    let r = Replay { format: "raqote-sim-replay 1".into(), property: "C10".into(), oracle: "c10.miri-undefined-behaviour".into(), batch_seed: seed, run_index: index, run_seed: run_seed(seed ^ 0x6d697269, index), detail: "reported by Miri; replay with ./check replay <file> (runs under cargo +nightly miri)".into(), history: h };
    print!("{}", replay_to_text(&r));
    0
}
