//! The per-pixel reference kernel (the only arithmetic the model owns).
//!
//! Given the previous value d, the source colour s (already scaled by the global alpha), the
//! shape coverage c, the clip coverage k and the blend mode, it decides whether an observed
//! value is admissible under the statement of C03:
//!   * zero coverage or zero clip coverage: exactly d
//!   * full coverage and no partial clip:   exactly blend(s, d)   (sw-composite's primitive)
//!   * SrcOver with an all-zero source:     exactly d
//!   * in between: "the interpolation by coverage x clip coverage" - the statement fixes no
//!     rounding there, so every channel has to lie within TOL of the real-valued interpolation.

use sw_composite::blend::*;

/// tolerance per channel (0..255 scale) for partial coverage; calibrated by `selftest`
pub const TOL: f32 = 3.0;

pub fn blend_px(mode: u8, s: u32, d: u32) -> u32 {
    match mode % 28 {
        0 => Dst::blend(s, d),
        1 => Src::blend(s, d),
        2 => Clear::blend(s, d),
        3 => SrcOver::blend(s, d),
        4 => DstOver::blend(s, d),
        5 => SrcIn::blend(s, d),
        6 => DstIn::blend(s, d),
        7 => SrcOut::blend(s, d),
        8 => DstOut::blend(s, d),
        9 => SrcAtop::blend(s, d),
        10 => DstAtop::blend(s, d),
        11 => Xor::blend(s, d),
        12 => Add::blend(s, d),
        13 => Screen::blend(s, d),
        14 => Overlay::blend(s, d),
        15 => Darken::blend(s, d),
        16 => Lighten::blend(s, d),
        17 => ColorDodge::blend(s, d),
        18 => ColorBurn::blend(s, d),
        19 => HardLight::blend(s, d),
        20 => SoftLight::blend(s, d),
        21 => Difference::blend(s, d),
        22 => Exclusion::blend(s, d),
        23 => Multiply::blend(s, d),
        24 => Hue::blend(s, d),
        25 => Saturation::blend(s, d),
        26 => Color::blend(s, d),
        _ => Luminosity::blend(s, d),
    }
}

#[inline]
fn ch(p: u32, i: u32) -> f32 {
    ((p >> (8 * i)) & 0xff) as f32
}

/// the real-valued interpolation, per channel (b, g, r, a order)
pub fn ideal(d: u32, s: u32, c: u8, k: Option<u8>, mode: u8) -> [f32; 4] {
    let t = (c as f32 / 255.) * (k.map(|k| k as f32 / 255.).unwrap_or(1.));
    let mut out = [0f32; 4];
    if mode % 28 == 3 {
        let sa = ch(s, 3) / 255.;
        for i in 0..4 {
            out[i as usize] = ch(s, i) * t + ch(d, i) * (1. - sa * t);
        }
    } else {
        let b = blend_px(mode, s, d);
        for i in 0..4 {
            out[i as usize] = ch(d, i) + (ch(b, i) - ch(d, i)) * t;
        }
    }
    out
}

#[derive(Debug)]
#[allow(dead_code)] // the payloads are only printed (Debug) in violation reports
pub enum Verdict {
    Ok,
    /// the pixel had to keep its value bit for bit
    MustBeUnchanged,
    /// the pixel had to be exactly this value
    MustEqual(u32),
    /// partial coverage: out of tolerance from this real-valued colour
    OutOfTolerance([f32; 4]),
}

pub fn judge(o: u32, d: u32, s: u32, c: u8, k: Option<u8>, mode: u8) -> Verdict {
    if c == 0 || k == Some(0) {
        return if o == d { Verdict::Ok } else { Verdict::MustBeUnchanged };
    }
    if mode % 28 == 3 && s == 0 {
        return if o == d { Verdict::Ok } else { Verdict::MustBeUnchanged };
    }
    if c == 255 && (k.is_none() || k == Some(255)) {
        let b = blend_px(mode, s, d);
        return if o == b { Verdict::Ok } else { Verdict::MustEqual(b) };
    }
    let id = ideal(d, s, c, k, mode);
    for i in 0..4 {
        if (ch(o, i) - id[i as usize]).abs() > TOL {
            return Verdict::OutOfTolerance(id);
        }
    }
    Verdict::Ok
}

/// Start-up self test: the formulas sw-composite offers for partial coverage (and the ones
/// raqote's row procs build from them) stay inside the tolerance, and the exact end cases
/// hold for them. Returns the largest deviation seen, or an error text.
pub fn selftest() -> Result<f32, String> {
    use sw_composite::*;
    let mut worst = 0f32;
    let mut rng = crate::rng::Rng::new(0x5e1f7e57);
    let mut px = || crate::gen::valid_pixel(&mut rng);
    // white opaque SrcOver on transparent: alpha == coverage for every coverage
    for c in 0..=255u32 {
        let r = over_in(0xffffffff, 0, c);
        if c != 0 && (r >> 24) != c {
            return Err(format!("over_in(white, 0, {}) alpha = {}", c, r >> 24));
        }
    }
    for _ in 0..20000 {
        let s = px();
        let d = px();
        // full coverage is exact
        if over_in(s, d, 255) != over(s, d) {
            return Err(format!("over_in(s,d,255) != over(s,d) for {:08x} {:08x}", s, d));
        }
        if over_in_in(s, d, 255, 255) != over(s, d) {
            return Err(format!("over_in_in(s,d,255,255) != over(s,d) for {:08x} {:08x}", s, d));
        }
        if over_in(s, d, 0) != d {
            return Err(format!("over_in(s,d,0) != d for {:08x} {:08x}", s, d));
        }
        for _ in 0..8 {
            let c = (px() & 0xff) as u8;
            let k = (px() >> 8 & 0xff) as u8;
            if c == 0 || k == 0 {
                continue;
            }
            // SrcOver, mask only / mask and clip
            let cands = [
                (over_in(s, d, c as u32), ideal(d, s, c, None, 3)),
                (over_in_in(s, d, c as u32, k as u32), ideal(d, s, c, Some(k), 3)),
            ];
            for (o, id) in cands.iter() {
                for i in 0..4 {
                    worst = worst.max((ch(*o, i) - id[i as usize]).abs());
                }
            }
            // other modes through lerp
            for mode in [1u8, 2, 5, 6, 7, 10, 11, 12, 13, 23] {
                let b = blend_px(mode, s, d);
                let cands = [
                    (lerp(d, b, alpha_to_alpha256(c as u32)), ideal(d, s, c, None, mode)),
                    (lerp(d, b, alpha_to_alpha256(muldiv255(c as u32, k as u32))), ideal(d, s, c, Some(k), mode)),
                    (alpha_lerp(d, b, c as u32, k as u32), ideal(d, s, c, Some(k), mode)),
                ];
                for (o, id) in cands.iter() {
                    for i in 0..4 {
                        worst = worst.max((ch(*o, i) - id[i as usize]).abs());
                    }
                }
            }
        }
    }
    if worst > TOL - 0.5 {
        return Err(format!("partial-coverage formulas deviate by {} from the real-valued interpolation; TOL = {}", worst, TOL));
    }
    Ok(worst)
}
