//! An independent geometric envelope for filled paths (f64, no rasteriser): which pixels are
//! *certainly* not covered by a shape.
//!
//! C02 speaks of "every pixel whose coverage by the drawn shape is zero". The tower takes coverage
//! from the library itself (a canonical white render), which says nothing about a rasteriser that
//! invents coverage far away from the shape in every rendering alike. This module supplies the
//! part of "coverage is zero" that plain geometry decides:
//!
//!  * every segment of the path lies in the convex hull of its control points (a line in itself,
//!    a quadratic in a triangle, a cubic in a quadrilateral);
//!  * for a point outside all of those hulls the winding number of the path equals the winding
//!    number of the polygon through the on-curve points (the curves can be pulled onto their
//!    chords inside the hulls without crossing the point);
//!  * so a pixel whose centre is outside that polygon under the path's fill rule and farther than
//!    MARGIN from every hull has no part of the shape within MARGIN - 0.71 px of it.
//!
//! The rasteriser rounds crossings to quarter pixels and flattens curves with a small tolerance;
//! MARGIN = 1.5 px leaves 0.79 px of slack around the pixel square for that. Nothing is said
//! about pixels that are near or inside the shape (that is C01 / C08, not claimed).

use raqote::{Path, PathOp, Transform, Winding};

pub const MARGIN: f64 = 1.5;
/// beyond this (C07's stated working range) the library's fixed-point coordinates are not
/// meaningful and the envelope makes no statement
const RANGE: f64 = 4000.;

type P = (f64, f64);

struct Piece {
    /// control points of one segment, first = start, last = end (2, 3 or 4 points)
    pts: Vec<P>,
}

fn cross(o: P, a: P, b: P) -> f64 {
    (a.0 - o.0) * (b.1 - o.1) - (a.1 - o.1) * (b.0 - o.0)
}

fn dist_seg(p: P, a: P, b: P) -> f64 {
    let (dx, dy) = (b.0 - a.0, b.1 - a.1);
    let l2 = dx * dx + dy * dy;
    let t = if l2 == 0. { 0. } else { (((p.0 - a.0) * dx + (p.1 - a.1) * dy) / l2).max(0.).min(1.) };
    let (qx, qy) = (a.0 + t * dx, a.1 + t * dy);
    ((p.0 - qx).powi(2) + (p.1 - qy).powi(2)).sqrt()
}

/// distance from p to the convex hull of up to four points (0 inside)
fn dist_hull(p: P, pts: &[P]) -> f64 {
    // monotone chain
    let mut v: Vec<P> = pts.to_vec();
    v.sort_by(|a, b| a.partial_cmp(b).unwrap());
    v.dedup();
    if v.len() == 1 {
        return ((p.0 - v[0].0).powi(2) + (p.1 - v[0].1).powi(2)).sqrt();
    }
    let mut hull: Vec<P> = Vec::new();
    for pass in 0..2 {
        let start = hull.len();
        let it: Box<dyn Iterator<Item = &P>> = if pass == 0 { Box::new(v.iter()) } else { Box::new(v.iter().rev()) };
        for q in it {
            while hull.len() >= start + 2 && cross(hull[hull.len() - 2], hull[hull.len() - 1], *q) <= 0. {
                hull.pop();
            }
            hull.push(*q);
        }
        hull.pop();
    }
    if hull.len() >= 3 && (0..hull.len()).all(|i| cross(hull[i], hull[(i + 1) % hull.len()], p) >= 0.) {
        return 0.;
    }
    let mut d = f64::INFINITY;
    for i in 0..hull.len() {
        d = d.min(dist_seg(p, hull[i], hull[(i + 1) % hull.len()]));
    }
    d
}

/// the path as the rasteriser's front end sees it (DrawTarget::apply_path): subpaths are closed
/// implicitly, a command after Close continues from the subpath's first point, a path that begins
/// without MoveTo starts at the first point it mentions
fn pieces(path: &Path, t: &Transform) -> Option<Vec<Piece>> {
    let tp = |p: raqote::Point| -> P {
        let (x, y) = (p.x as f64, p.y as f64);
        (x * t.m11 as f64 + y * t.m21 as f64 + t.m31 as f64, x * t.m12 as f64 + y * t.m22 as f64 + t.m32 as f64)
    };
    let mut out: Vec<Piece> = Vec::new();
    let mut cur: Option<P> = None;
    let mut first: Option<P> = None;
    let close = |out: &mut Vec<Piece>, cur: &mut Option<P>, first: &Option<P>| {
        if let (Some(f), Some(c)) = (*first, *cur) {
            out.push(Piece { pts: vec![c, f] });
        }
        *cur = *first;
    };
    for op in &path.ops {
        match *op {
            PathOp::MoveTo(p) => {
                close(&mut out, &mut cur, &first);
                cur = Some(tp(p));
                first = cur;
            }
            PathOp::LineTo(p) => {
                let p = tp(p);
                if cur.is_none() {
                    cur = Some(p);
                    first = cur;
                }
                out.push(Piece { pts: vec![cur.unwrap(), p] });
                cur = Some(p);
            }
            PathOp::QuadTo(c, p) => {
                let (c, p) = (tp(c), tp(p));
                if cur.is_none() {
                    cur = Some(c);
                    first = cur;
                }
                out.push(Piece { pts: vec![cur.unwrap(), c, p] });
                cur = Some(p);
            }
            PathOp::CubicTo(c1, c2, p) => {
                let (c1, c2, p) = (tp(c1), tp(c2), tp(p));
                if cur.is_none() {
                    cur = Some(c1);
                    first = cur;
                }
                out.push(Piece { pts: vec![cur.unwrap(), c1, c2, p] });
                cur = Some(p);
            }
            PathOp::Close => close(&mut out, &mut cur, &first),
        }
    }
    close(&mut out, &mut cur, &first);
    for pc in &out {
        for p in &pc.pts {
            if !p.0.is_finite() || !p.1.is_finite() || p.0.abs() > RANGE || p.1.abs() > RANGE {
                return None;
            }
        }
    }
    Some(out)
}

/// For every pixel of a w x h surface: true if the shape `path` filled under `t` certainly does
/// not reach it. None: no statement (coordinates outside the working range, singular transform).
pub fn certainly_uncovered(path: &Path, t: &Transform, w: i32, h: i32) -> Option<Vec<bool>> {
    t.inverse()?;
    // pixels x segments: not on the rare very large surfaces, nor for the rare crowded paths
    if (w as i64) * (h as i64) * (path.ops.len() as i64) > 6_000_000 {
        return None;
    }
    let pcs = pieces(path, t)?;
    let evenodd = matches!(path.winding, Winding::EvenOdd);
    let mut out = vec![false; (w * h).max(0) as usize];
    // bounding box of everything, grown by the margin: outside of it the answer is immediate
    let (mut x0, mut y0, mut x1, mut y1) = (f64::INFINITY, f64::INFINITY, f64::NEG_INFINITY, f64::NEG_INFINITY);
    for pc in &pcs {
        for p in &pc.pts {
            x0 = x0.min(p.0);
            y0 = y0.min(p.1);
            x1 = x1.max(p.0);
            y1 = y1.max(p.1);
        }
    }
    for py in 0..h {
        for px in 0..w {
            let c = (px as f64 + 0.5, py as f64 + 0.5);
            let i = (py * w + px) as usize;
            if pcs.is_empty() || c.0 < x0 - MARGIN || c.0 > x1 + MARGIN || c.1 < y0 - MARGIN || c.1 > y1 + MARGIN {
                out[i] = true;
                continue;
            }
            // near some hull: no statement
            if pcs.iter().any(|pc| dist_hull(c, &pc.pts) <= MARGIN) {
                continue;
            }
            // winding number of the chord polygon (ray towards +x)
            let mut wn = 0i32;
            for pc in &pcs {
                let (a, b) = (pc.pts[0], *pc.pts.last().unwrap());
                if a.1 <= c.1 {
                    if b.1 > c.1 && cross(a, b, c) > 0. {
                        wn += 1;
                    }
                } else if b.1 <= c.1 && cross(a, b, c) < 0. {
                    wn -= 1;
                }
            }
            let inside = if evenodd { wn & 1 != 0 } else { wn != 0 };
            out[i] = !inside;
        }
    }
    Some(out)
}

/// first pixel with coverage although the geometry rules it out
pub fn first_impossible(cov: &[u8], path: &Path, t: &Transform, w: i32, h: i32) -> Option<String> {
    let unc = certainly_uncovered(path, t, w, h)?;
    (0..cov.len()).find(|p| unc[*p] && cov[*p] != 0).map(|p| {
        format!(
            "pixel ({},{}) has coverage {} although its centre is outside of the shape and more than {} px away from every segment's control hull",
            p as i32 % w,
            p as i32 / w,
            cov[p],
            MARGIN
        )
    })
}

/// The same for a stroke: the stroked region lies within `outset` of the path in user space -
/// half the width for the body, butt and round caps, bevel and round joins; times sqrt 2 with
/// square caps (the corners of the cap); times the miter limit with miter joins (the tip of the
/// longest miter that is not cut off) - hence within outset x (largest singular value of t) of it
/// in device space. Dashing only removes parts. None: no statement (width not a positive number,
/// coordinates out of range).
pub fn stroke_certainly_uncovered(path: &Path, width: f32, miter_limit: f32, square_caps: bool, miter_joins: bool, t: &Transform, w: i32, h: i32) -> Option<Vec<bool>> {
    t.inverse()?;
    if !(width > 0.) || !width.is_finite() || !miter_limit.is_finite() {
        return None;
    }
    if (w as i64) * (h as i64) * (path.ops.len() as i64) > 6_000_000 {
        return None;
    }
    let pcs = pieces(path, t)?;
    let (a, b, c, d) = (t.m11 as f64, t.m12 as f64, t.m21 as f64, t.m22 as f64);
    let s1 = a * a + b * b + c * c + d * d;
    let s2 = (((a * a + b * b) - (c * c + d * d)).powi(2) + 4. * (a * c + b * d).powi(2)).sqrt();
    let sigma = ((s1 + s2) / 2.).sqrt();
    let mut factor = 1.0f64;
    if square_caps {
        factor = factor.max(std::f64::consts::SQRT_2);
    }
    if miter_joins {
        factor = factor.max(miter_limit.max(0.) as f64);
    }
    let outset = 0.5 * width as f64 * factor * sigma;
    if !outset.is_finite() || outset > RANGE {
        return None;
    }
    let reach = MARGIN + outset;
    let mut out = vec![false; (w * h).max(0) as usize];
    for py in 0..h {
        for px in 0..w {
            let ctr = (px as f64 + 0.5, py as f64 + 0.5);
            out[(py * w + px) as usize] = pcs.iter().all(|pc| dist_hull(ctr, &pc.pts) > reach);
        }
    }
    Some(out)
}

pub fn first_impossible_stroke(cov: &[u8], path: &Path, width: f32, miter_limit: f32, square_caps: bool, miter_joins: bool, t: &Transform, w: i32, h: i32) -> Option<String> {
    let unc = stroke_certainly_uncovered(path, width, miter_limit, square_caps, miter_joins, t, w, h)?;
    (0..cov.len()).find(|p| unc[*p] && cov[*p] != 0).map(|p| {
        format!(
            "pixel ({},{}) has coverage {} although it is farther from the path than the stroke can reach (half the width; times sqrt 2 with square caps, times the miter limit with miter joins; plus {} px)",
            p as i32 % w,
            p as i32 / w,
            cov[p],
            MARGIN
        )
    })
}
