//! The one source of randomness: splitmix64 to derive per-run seeds, xoshiro256** per run.
//! Own implementation so that no dependency upgrade can ever change a replay.

#[inline]
pub fn splitmix64(state: &mut u64) -> u64 {
    *state = state.wrapping_add(0x9E3779B97F4A7C15);
    let mut z = *state;
    z = (z ^ (z >> 30)).wrapping_mul(0xBF58476D1CE4E5B9);
    z = (z ^ (z >> 27)).wrapping_mul(0x94D049BB133111EB);
    z ^ (z >> 31)
}

/// seed of run `index` of the batch `batch_seed`
pub fn run_seed(batch_seed: u64, index: u64) -> u64 {
    let mut s = batch_seed ^ index.wrapping_mul(0xD6E8FEB86659FD93).rotate_left(17);
    let a = splitmix64(&mut s);
    let mut t = a ^ index;
    splitmix64(&mut t)
}

#[derive(Clone)]
pub struct Rng {
    s: [u64; 4],
    pub draws: u64,
}

impl Rng {
    pub fn new(seed: u64) -> Rng {
        let mut sm = seed;
        let s = [splitmix64(&mut sm), splitmix64(&mut sm), splitmix64(&mut sm), splitmix64(&mut sm)];
        Rng { s, draws: 0 }
    }

    #[inline]
    pub fn next_u64(&mut self) -> u64 {
        self.draws += 1;
        let result = self.s[1].wrapping_mul(5).rotate_left(7).wrapping_mul(9);
        let t = self.s[1] << 17;
        self.s[2] ^= self.s[0];
        self.s[3] ^= self.s[1];
        self.s[1] ^= self.s[2];
        self.s[0] ^= self.s[3];
        self.s[2] ^= t;
        self.s[3] = self.s[3].rotate_left(45);
        result
    }

    pub fn next_u32(&mut self) -> u32 {
        (self.next_u64() >> 32) as u32
    }

    /// uniform in 0..n (n > 0)
    pub fn below(&mut self, n: u64) -> u64 {
        debug_assert!(n > 0);
        // multiply-shift; bias is irrelevant here and this keeps one draw per call
        ((self.next_u64() >> 32) * n) >> 32
    }

    pub fn usize(&mut self, n: usize) -> usize {
        self.below(n as u64) as usize
    }

    /// uniform in lo..=hi
    pub fn range(&mut self, lo: i32, hi: i32) -> i32 {
        debug_assert!(hi >= lo);
        lo + self.below((hi - lo + 1) as u64) as i32
    }

    /// uniform in [0,1)
    pub fn unit(&mut self) -> f32 {
        (self.next_u64() >> 40) as f32 / (1u64 << 24) as f32
    }

    pub fn f32_in(&mut self, lo: f32, hi: f32) -> f32 {
        lo + (hi - lo) * self.unit()
    }

    /// true with probability num/den
    pub fn chance(&mut self, num: u32, den: u32) -> bool {
        self.below(den as u64) < num as u64
    }

    pub fn pick<T: Copy>(&mut self, xs: &[T]) -> T {
        xs[self.usize(xs.len())]
    }

    /// index chosen with the given weights (sum > 0)
    pub fn weighted(&mut self, weights: &[u32]) -> usize {
        let total: u64 = weights.iter().map(|w| *w as u64).sum();
        debug_assert!(total > 0);
        let mut x = self.below(total);
        for (i, w) in weights.iter().enumerate() {
            if x < *w as u64 {
                return i;
            }
            x -= *w as u64;
        }
        weights.len() - 1
    }
}
