//! Minimisation of a failing history: drop steps (ddmin, bracket aware), then simplify the
//! arguments of the remaining steps by a fixed menu, while the same oracle keeps failing.

use crate::gen;
use crate::mk;
use crate::ops::*;

/// Makes a step list well formed again after steps were removed: unmatched pops are dropped,
/// missing pops are appended (LIFO across clip and layer stacks), and no-op claims whose
/// context is gone are withdrawn.
pub fn repair(h: &History) -> History {
    let ns = h.surfaces.len();
    let mut stacks: Vec<Vec<(bool, Option<[i32; 4]>)>> = vec![Vec::new(); ns]; // (is_layer, rect)
    let mut ctms: Vec<Mat> = vec![mat_identity(); ns];
    let mut steps = Vec::new();
    for s in &h.steps {
        if s.surf >= ns {
            continue;
        }
        let st = &mut stacks[s.surf];
        let mut s = s.clone();
        match &s.op {
            Op::PopClip => match st.iter().rposition(|b| !b.0) {
                Some(i) => {
                    st.remove(i);
                }
                None => continue,
            },
            Op::PopLayer => match st.iter().rposition(|b| b.0) {
                Some(i) => {
                    st.remove(i);
                }
                None => continue,
            },
            Op::PushClipRect(r) => st.push((false, Some(*r))),
            Op::PushClip(_) => st.push((false, None)),
            Op::PushLayer { .. } => st.push((true, None)),
            Op::SetTransform(m) => ctms[s.surf] = *m,
            Op::CopySurface { from, .. } | Op::BlendSurface { from, .. } | Op::BlendSurfaceAlpha { from, .. } => {
                if *from >= ns || *from == s.surf {
                    continue;
                }
            }
            _ => {}
        }
        match s.nop {
            2 => {
                if gen::invertible(&ctms[s.surf]) {
                    s.nop = 0;
                }
            }
            3 => {
                let (w, hh) = (h.surfaces[s.surf].w, h.surfaces[s.surf].h);
                let empty = stacks[s.surf].iter().any(|(_, r)| match r {
                    Some(r) => r[0].max(0) >= r[2].min(w) || r[1].max(0) >= r[3].min(hh),
                    None => false,
                });
                if !empty {
                    s.nop = 0;
                }
            }
            4 => {
                if !gen::is_identity(&ctms[s.surf]) {
                    s.nop = 0;
                }
            }
            _ => {}
        }
        steps.push(s);
    }
    for si in 0..ns {
        while let Some((is_layer, _)) = stacks[si].pop() {
            steps.push(Step::new(si, if is_layer { Op::PopLayer } else { Op::PopClip }));
        }
    }
    History { steps, ..h.clone() }
}

pub struct Budget {
    pub evals: usize,
    pub max_evals: usize,
    pub deadline: std::time::Instant,
}

impl Budget {
    fn left(&self) -> bool {
        self.evals < self.max_evals && std::time::Instant::now() < self.deadline
    }
}

fn without(h: &History, from: usize, to: usize) -> History {
    let mut steps = Vec::with_capacity(h.steps.len());
    steps.extend_from_slice(&h.steps[..from]);
    steps.extend_from_slice(&h.steps[to..]);
    repair(&History { steps, ..h.clone() })
}

fn ddmin(mut h: History, fails: &mut dyn FnMut(&History) -> bool, b: &mut Budget) -> History {
    let mut chunk = (h.steps.len() / 2).max(1);
    loop {
        let mut progress = false;
        let mut start = 0;
        while start < h.steps.len() && b.left() {
            let end = (start + chunk).min(h.steps.len());
            let cand = without(&h, start, end);
            if cand.steps.len() < h.steps.len() {
                b.evals += 1;
                if fails(&cand) {
                    h = cand;
                    progress = true;
                    continue; // same start, list got shorter
                }
            }
            start = end;
        }
        if !b.left() {
            return h;
        }
        if chunk == 1 {
            if !progress {
                return h;
            }
        } else {
            chunk = (chunk / 2).max(1);
        }
    }
}

fn white() -> SrcSpec {
    SrcSpec::solid(255, 255, 255, 255)
}

fn round_path(p: &PathSpec, q: f32) -> PathSpec {
    let r = |v: F| F((v.0 * q).round() / q);
    let segs = p
        .segs
        .iter()
        .map(|s| match *s {
            Seg::M(x, y) => Seg::M(r(x), r(y)),
            Seg::L(x, y) => Seg::L(r(x), r(y)),
            Seg::Q(a, b, c, d) => Seg::Q(r(a), r(b), r(c), r(d)),
            Seg::C(a, b, c, d, e, g) => Seg::C(r(a), r(b), r(c), r(d), r(e), r(g)),
            Seg::Z => Seg::Z,
            Seg::Arc(x, y, rad, a0, sw) => Seg::Arc(r(x), r(y), r(rad), a0, sw),
            Seg::Rect(x, y, w, h) => Seg::Rect(r(x), r(y), r(w), r(h)),
        })
        .collect();
    PathSpec { segs, ..p.clone() }
}

fn path_of(op: &Op) -> Option<&PathSpec> {
    match op {
        Op::Fill { path, .. } | Op::Stroke { path, .. } | Op::PathQuery { path, .. } => Some(path),
        Op::PushClip(p) => Some(p),
        _ => None,
    }
}

fn with_path(op: &Op, p: PathSpec) -> Op {
    let mut op = op.clone();
    match &mut op {
        Op::Fill { path, .. } | Op::Stroke { path, .. } | Op::PathQuery { path, .. } => *path = p,
        Op::PushClip(q) => *q = p,
        _ => {}
    }
    op
}

/// candidate simplifications of one step (each strictly "simpler" by the fixed menu)
fn simpler(op: &Op) -> Vec<Op> {
    let mut out = Vec::new();
    // source -> opaque white
    if let Some(src) = gen::get_src(op) {
        if *src != white() {
            let mut o = op.clone();
            gen::set_src(&mut o, white());
            out.push(o);
        }
    }
    if let Some(opts) = gen::get_opts(op) {
        if opts.blend != BLEND_SRC_OVER {
            let mut o = op.clone();
            gen::set_opts(&mut o, |x| x.blend = BLEND_SRC_OVER);
            out.push(o);
        }
        if opts.alpha.0.to_bits() != 1f32.to_bits() {
            let mut o = op.clone();
            gen::set_opts(&mut o, |x| x.alpha = F(1.));
            out.push(o);
        }
        if !opts.aa {
            let mut o = op.clone();
            gen::set_opts(&mut o, |x| x.aa = true);
            out.push(o);
        }
    }
    if let Some(p) = path_of(op) {
        for i in 0..p.segs.len() {
            let mut q = p.clone();
            q.segs.remove(i);
            out.push(with_path(op, q));
        }
        for i in 0..p.segs.len() {
            // curve -> line to its end point
            let repl = match p.segs[i] {
                Seg::Q(_, _, x, y) | Seg::C(_, _, _, _, x, y) => Some(Seg::L(x, y)),
                _ => None,
            };
            if let Some(r) = repl {
                let mut q = p.clone();
                q.segs[i] = r;
                out.push(with_path(op, q));
            }
        }
        if p.evenodd {
            let mut q = p.clone();
            q.evenodd = false;
            out.push(with_path(op, q));
        }
        let q4 = round_path(p, 4.);
        if q4 != *p {
            out.push(with_path(op, q4));
        }
        let q1 = round_path(p, 1.);
        if q1 != *p {
            out.push(with_path(op, q1));
        }
    }
    match op {
        Op::Stroke { style, .. } => {
            if !style.dash_array.is_empty() {
                let mut o = op.clone();
                if let Op::Stroke { style, .. } = &mut o {
                    style.dash_array.clear();
                    style.dash_offset = F(0.);
                }
                out.push(o);
            }
            if style.cap != 2 || style.join != 2 {
                let mut o = op.clone();
                if let Op::Stroke { style, .. } = &mut o {
                    style.cap = 2;
                    style.join = 2;
                }
                out.push(o);
            }
            if style.dash_offset.0 != 0. {
                let mut o = op.clone();
                if let Op::Stroke { style, .. } = &mut o {
                    style.dash_offset = F(0.);
                }
                out.push(o);
            }
        }
        Op::SetTransform(m) => {
            if !gen::is_identity(m) {
                out.push(Op::SetTransform(mat_identity()));
                let t = mk::mat(m);
                out.push(Op::SetTransform(mk::unmat(&raqote::Transform::translation(t.m31.round(), t.m32.round()))));
            }
        }
        Op::PushLayer { opacity, blend, plain } => {
            if !*plain || opacity.0 != 1. {
                out.push(Op::PushLayer { opacity: F(1.), blend: *blend, plain: *plain });
                out.push(Op::PushLayer { opacity: *opacity, blend: BLEND_SRC_OVER, plain: true });
            }
        }
        Op::FillRect { rect, src, opts } => {
            let r: Vec<F> = rect.iter().map(|v| F(v.0.round())).collect();
            let rr = [r[0], r[1], r[2], r[3]];
            if rr != *rect {
                out.push(Op::FillRect { rect: rr, src: src.clone(), opts: opts.clone() });
            }
        }
        Op::Mask { src, x, y, w, h, data } => {
            if data.iter().any(|d| *d != 255) {
                out.push(Op::Mask { src: src.clone(), x: *x, y: *y, w: *w, h: *h, data: vec![255; data.len()] });
            }
            if *w > 1 || *h > 1 {
                out.push(Op::Mask { src: src.clone(), x: *x, y: *y, w: 1, h: 1, data: vec![data[0]] });
            }
        }
        _ => {}
    }
    out
}

pub fn minimise(h: &History, fails: &mut dyn FnMut(&History) -> bool, max_evals: usize, max_secs: u64) -> (History, usize) {
    let mut b = Budget { evals: 0, max_evals, deadline: std::time::Instant::now() + std::time::Duration::from_secs(max_secs) };
    let mut h = repair(h);
    b.evals += 1;
    if !fails(&h) {
        // the repaired form must still fail; otherwise keep the original
        return (h, b.evals);
    }
    h = ddmin(h, fails, &mut b);
    // drop the buggify coins and twin options that are not needed
    if h.buggify != 0 && b.left() {
        let cand = History { buggify: 0, ..h.clone() };
        b.evals += 1;
        if fails(&cand) {
            h = cand;
        }
    }
    // initial pixels -> one constant
    for si in 0..h.surfaces.len() {
        if !b.left() {
            break;
        }
        let px = &h.surfaces[si].pixels;
        if px.is_empty() {
            continue;
        }
        for c in [0u32, 0xff000000, px[0]] {
            if px.iter().all(|p| *p == c) {
                break;
            }
            let mut cand = h.clone();
            cand.surfaces[si].pixels = vec![c; px.len()];
            b.evals += 1;
            if fails(&cand) {
                h = cand;
                break;
            }
        }
    }
    // simplify arguments, step by step, to a fixpoint
    let mut changed = true;
    let mut rounds = 0;
    while changed && b.left() && rounds < 6 {
        changed = false;
        rounds += 1;
        let mut i = 0;
        while i < h.steps.len() && b.left() {
            if h.steps[i].is_nop() {
                // the arguments of a no-op perturbation are what makes it a no-op: leave them alone
                i += 1;
                continue;
            }
            let mut improved = true;
            while improved && b.left() {
                improved = false;
                for cand_op in simpler(&h.steps[i].op) {
                    let mut cand = h.clone();
                    cand.steps[i].op = cand_op;
                    let cand = repair(&cand);
                    if cand.steps.len() != h.steps.len() {
                        continue;
                    }
                    b.evals += 1;
                    if fails(&cand) {
                        h = cand;
                        improved = true;
                        changed = true;
                        break;
                    }
                    if !b.left() {
                        break;
                    }
                }
            }
            i += 1;
        }
        let before = h.steps.len();
        h = ddmin(h, fails, &mut b);
        if h.steps.len() < before {
            changed = true;
        }
    }
    (h, b.evals)
}
