//! Relative oracles: the primary execution next to a twin execution of the real code.
//! C10 snapshot-restart twin, C11 canonicalised-CTM twin, C14 fast-path twin.

use crate::engine::*;
use crate::gen::{self, *};
use crate::mk::{self, World};
use crate::ops::*;
use crate::rng::Rng;

fn viol(oracle: &'static str, step: usize, detail: String) -> Outcome {
    Outcome::Violation(Violation { oracle, step, detail, panic: None })
}

// ---------------------------------------------------------------------------
// C10

pub fn gen_c10(rng: &mut Rng, thorough: bool) -> History {
    let surf = if thorough && rng.chance(1, 12) { gen_surface_big(rng, true) } else { gen_surface(rng, if thorough { 64 } else { 33 }, true, true) };
    let mut em = Emit::new(vec![surf]);
    // swarm: each run has its own mix
    let long = rng.chance(1, if thorough { 3 } else { 8 });
    let mut draw = DrawCfg::general();
    draw.kinds = [8, 4, 6, 1, 2, 2, 1];
    if rng.chance(1, 3) {
        draw.sources = SRC_SOLID;
    }
    if rng.chance(1, 4) {
        draw.blend = BlendProfile::Uniform;
    }
    let cfg = SceneCfg {
        min_ops: if long { 60 } else { 20 },
        max_ops: if long { 200 } else { 60 },
        max_clip: 3,
        max_layer: 2,
        p_clip: rng.pick(&[20, 60, 120]),
        p_layer: rng.pick(&[0, 20, 50]),
        p_pop: rng.pick(&[60, 120]),
        p_transform: rng.pick(&[0, 40, 100]),
        p_nop: rng.pick(&[60, 120, 200]),
        p_restart: rng.pick(&[0, 20, 50]),
        p_resync: rng.pick(&[20, 60, 120]),
        allow_singular: true,
        draw,
        aligned_clip_paths: false,
        early_clip_pop: false,
        layer_blend: BlendProfile::Common,
    };
    gen_scene(rng, &mut em, 0, &cfg);
    em.finish(0, 0, 2_000_000_000, format!("c10 long={} clip={} layer={} nop={} restart={} resync={}", long, cfg.p_clip, cfg.p_layer, cfg.p_nop, cfg.p_restart, cfg.p_resync))
}

pub fn run_c10(h: &History, st: &mut Stats) -> Outcome {
    raqote::verif::set_buggify(0);
    let mut p = World::new(&h.surfaces);
    let mut t = World::new(&h.surfaces);
    let budget = h.tick_budget;
    let mut nops = 0;
    let mut resyncs = 0;
    let mut draws = 0;
    for (i, step) in h.steps.iter().enumerate() {
        let si = step.surf;
        if si >= p.surfs.len() {
            continue;
        }
        let before = if step.is_nop() { Some(p.surfs[si].pixels().to_vec()) } else { None };
        if let Err(pi) = exec(&mut p, step, budget, st) {
            st.abort(&panic_class(&pi));
            return Outcome::Aborted(panic_desc(&pi));
        }
        let w = p.surfs[si].w();
        if let Some(before) = before {
            nops += 1;
            st.count("perturbation.nop_draw");
            if let Some(d) = first_diff(&before, p.surfs[si].pixels(), w) {
                return viol("c10.nop-changed-pixels", i, format!("a call that must draw nothing changed {}", d));
            }
        }
        if !p.surfs[si].idle() {
            return viol("c10.rasterizer-not-idle", i, format!("rasteriser holds state of an earlier path after {}", step.op.name()));
        }
        if let Err(v) = check_shadow(&p, si, "c10", i) {
            return Outcome::Violation(v);
        }
        match &step.op {
            Op::Restart(_) => {
                st.count("perturbation.restart");
            }
            Op::Resync => {
                if p.shadows[si].layer_depth() == 0 {
                    let s = &p.surfs[si];
                    t.surfs[si] = World::fresh_like(s.w(), s.h(), s.pixels(), &p.shadows[si]);
                    t.shadows[si] = p.shadows[si].clone();
                    resyncs += 1;
                    st.count("twin.restart_snapshots");
                }
            }
            _ if step.is_nop() => {}
            _ => {
                if step.op.is_draw() {
                    draws += 1;
                }
                if let Err(pi) = exec(&mut t, step, budget, st) {
                    st.abort(&panic_class(&pi));
                    return Outcome::Aborted(format!("twin: {}", panic_desc(&pi)));
                }
            }
        }
        if let Some(d) = first_diff(p.surfs[si].pixels(), t.surfs[si].pixels(), w) {
            return viol(
                "c10.twin-differs",
                i,
                format!("after {}: reused target vs target rebuilt from visible state: {}", step.op.name(), d),
            );
        }
    }
    st.nontrivial_flag = draws >= 3 && (nops > 0 || resyncs > 0);
    Outcome::Ok
}

// ---------------------------------------------------------------------------
// C14

pub const V14_RECT_AS_PATH: u32 = 1;
pub const V14_COVERING_CLIP: u32 = 2;
pub const V14_IMAGE_AS_FILL: u32 = 4;
pub const V14_BUGGIFY: u32 = 8;
/// the twin brackets every eligible call with its own push / pop of a surface-covering clip
pub const V14_COVER_EACH: u32 = 16;

pub fn gen_c14(rng: &mut Rng, thorough: bool) -> History {
    let surf = if thorough && rng.chance(1, 12) { gen_surface_big(rng, false) } else { gen_surface(rng, if thorough { 64 } else { 33 }, false, false) };
    let (w, h) = (surf.w, surf.h);
    // a third of the histories also move pixels in from a second surface between the eligible
    // calls: the block transfers write the buffer without going through the drawing pipeline
    // (whatever an optimised route remembers about the buffer has to survive that too)
    let second = if rng.chance(1, 3) { Some(gen_surface(rng, 16, false, true)) } else { None };
    let sdims = second.as_ref().map(|s| (s.w, s.h));
    let mut em = Emit::new(match second {
        Some(s) => vec![surf, s],
        None => vec![surf],
    });
    let mut last_clear: Option<[u8; 4]> = None;
    let variant = match rng.below(7) {
        0 => V14_RECT_AS_PATH,
        1 => V14_COVERING_CLIP,
        2 => V14_IMAGE_AS_FILL,
        3 => V14_BUGGIFY,
        4 => V14_COVER_EACH | (rng.below(2) as u32 * V14_RECT_AS_PATH),
        _ => 1 + rng.below(15) as u32,
    };
    // the covering clip may be the surface rect exactly or reach beyond it by up to 6 px
    let variant = variant | ((rng.below(7) as u32) << 8);
    let buggify = if variant & V14_BUGGIFY != 0 { 1 + rng.below(3) as u32 } else { 0 };
    let n = 1 + rng.usize(if thorough { 16 } else { 8 });
    let blend = match rng.below(3) {
        0 => BlendProfile::Destructive,
        1 => BlendProfile::Uniform,
        _ => BlendProfile::Common,
    };
    // The optimised routes are also taken while layers are open (they only look at the clip
    // stack). Layers are opened either plainly or under a clip rect that is popped again before
    // the eligible calls - the equalities of C14 are relative, so they do not depend on what
    // such an interleaving of the two stacks ought to mean.
    let mut layers = 0;
    match rng.below(6) {
        0 | 1 => {}
        2 => {
            em.push(0, Op::PushLayer { opacity: F(gen_alpha(rng)), blend: gen_blend(rng, BlendProfile::Common), plain: false });
            layers = 1;
        }
        3 => {
            em.push(0, Op::PushLayer { opacity: F(1.), blend: BLEND_SRC_OVER, plain: true });
            em.push(0, Op::PushLayer { opacity: F(gen_alpha(rng)), blend: gen_blend(rng, BlendProfile::Common), plain: false });
            layers = 2;
        }
        _ => {
            let x1 = rng.range(0, w / 2 + 1);
            let y1 = rng.range(0, h / 2 + 1);
            em.push(0, Op::PushClipRect([x1, y1, rng.range(x1, w + 1), rng.range(y1, h + 1)]));
            em.push(0, Op::PushLayer { opacity: F(if rng.chance(1, 2) { 1. } else { rng.unit() }), blend: gen_blend(rng, BlendProfile::Common), plain: false });
            em.push(0, Op::PopClip);
            layers = 1;
            if rng.chance(1, 3) {
                em.push(0, Op::PushLayer { opacity: F(1.), blend: BLEND_SRC_OVER, plain: true });
                layers = 2;
            }
        }
    }
    // A surface-covering clip is neutral whatever else is on the clip stack: now and then a clip of
    // the history's own (rectangle or path) is in force for a stretch of the calls (the eligible
    // calls then take the general route in both executions, and the twin's brackets sit on top)
    let mut outer_clip = false;
    let want_outer = rng.chance(1, 5);
    for _ in 0..n {
        if want_outer && !outer_clip && rng.chance(1, 3) {
            if rng.chance(2, 3) {
                let x1 = rng.range(-2, w);
                let y1 = rng.range(-2, h);
                em.push(0, Op::PushClipRect([x1, y1, rng.range(x1, w + 3), rng.range(y1, h + 3)]));
            } else {
                em.push(0, Op::PushClip(gen_path(rng, w, h, PATH_ANY)));
            }
            outer_clip = true;
            continue;
        }
        if outer_clip && rng.chance(1, 6) {
            em.push(0, Op::PopClip);
            outer_clip = false;
            continue;
        }
        // the very same call again, or the same colour as the surface was just cleared to: the
        // shaded source pixel then equals the destination pixel bit for bit
        if rng.chance(1, 8) {
            if let Some(last) = em.steps.last().map(|s| s.op.clone()) {
                if last.is_draw() && !matches!(last, Op::PopLayer) {
                    em.push(0, last);
                    continue;
                }
            }
        }
        if rng.chance(1, 12) {
            // the equalities do not depend on the transform: clear() ignores it on either route,
            // and under a non-identity transform fill_rect takes the general route anyway
            em.push(0, Op::SetTransform(gen_transform(rng, w, h, true)));
            continue;
        }
        if let Some((sw, sh)) = sdims {
            if rng.chance(1, 6) {
                if rng.chance(1, 3) {
                    // clear, transfer, clear to the same colour again
                    let c = last_clear.unwrap_or_else(|| {
                        let p = valid_pixel(rng);
                        [(p >> 24) as u8, (p >> 16) as u8, (p >> 8) as u8, p as u8]
                    });
                    em.push(0, Op::Clear { argb: c });
                    em.push(0, crate::misc::gen_transfer(rng, 1, sw, sh, w, h, false));
                    em.push(0, Op::Clear { argb: c });
                    last_clear = Some(c);
                } else {
                    em.push(0, crate::misc::gen_transfer(rng, 1, sw, sh, w, h, false));
                }
                continue;
            }
        }
        if rng.chance(1, 10) {
            let p = valid_pixel(rng);
            let (a, r, g, b) = ((p >> 24) as u8, (p >> 16) as u8, (p >> 8) as u8, p as u8);
            last_clear = Some([a, r, g, b]);
            em.push(0, Op::Clear { argb: [a, r, g, b] });
            em.push(0, Op::FillRect { rect: gen_int_rect_f(rng, w, h), src: SrcSpec::solid(a, r, g, b), opts: Opts { blend: BLEND_SRC_OVER, alpha: F(1.), aa: !rng.chance(1, 5) } });
            continue;
        }
        let op = match rng.below(10) {
            0..=4 => {
                // integer rectangle: inside, partly and wholly off-surface, zero and negative sizes
                let x = rng.range(-4, w + 3);
                let y = rng.range(-4, h + 3);
                let (rw, rh) = match rng.below(8) {
                    0 => (0, rng.range(-2, h + 2)),
                    1 => (rng.range(-w - 2, -1), rng.range(-h - 2, h + 2)),
                    2 => (rng.range(1, w + 4), rng.range(-h - 2, -1)),
                    _ => (rng.range(1, w + 4), rng.range(1, h + 4)),
                };
                Op::FillRect {
                    rect: [F(x as f32), F(y as f32), F(rw as f32), F(rh as f32)],
                    src: gen_source(rng, w, h, &SRC_ALL),
                    opts: gen_opts(rng, blend),
                }
            }
            5 => {
                // now and then the colour of the previous clear (a clear that changes nothing
                // unless something else wrote the buffer in between)
                let c = match last_clear {
                    Some(c) if rng.chance(1, 3) => c,
                    _ => {
                        let p = valid_pixel(rng);
                        [(p >> 24) as u8, (p >> 16) as u8, (p >> 8) as u8, p as u8]
                    }
                };
                last_clear = Some(c);
                Op::Clear { argb: c }
            }
            6 | 7 => Op::DrawImageAt {
                x: F(rng.range(-5, w + 2) as f32),
                y: F(rng.range(-4, h + 2) as f32),
                img: gen_image(rng),
                opts: gen_opts(rng, blend),
            },
            _ => {
                let mut cfg = DrawCfg::general();
                cfg.blend = blend;
                gen_draw(rng, w, h, &cfg)
            }
        };
        em.push(0, op);
    }
    if outer_clip {
        em.push(0, Op::PopClip);
    }
    for _ in 0..layers {
        em.push(0, Op::PopLayer);
    }
    em.finish(buggify, variant, 2_000_000_000, format!("c14 variant={:#x} buggify={:#x} layers={}", variant, buggify, layers))
}

fn c14_twin_op(op: &Op, variant: u32) -> Op {
    match op {
        Op::FillRect { rect, src, opts } if variant & V14_RECT_AS_PATH != 0 => {
            let int = rect.iter().all(|v| v.0 == v.0.trunc() && v.0.abs() < 1e6);
            if int {
                Op::Fill { path: PathSpec::new(false, vec![Seg::Rect(rect[0], rect[1], rect[2], rect[3])]), src: src.clone(), opts: opts.clone() }
            } else {
                op.clone()
            }
        }
        Op::DrawImageAt { x, y, img, opts } if variant & V14_IMAGE_AS_FILL != 0 => {
            if x.0 == x.0.trunc() && y.0 == y.0.trunc() {
                let xf = raqote::Transform::translation(-x.0, -y.0);
                Op::Fill {
                    path: PathSpec::new(false, vec![Seg::Rect(*x, *y, F(img.w as f32), F(img.h as f32))]),
                    src: SrcSpec { kind: SrcKind::Image { img: img.clone(), repeat: false, bilinear: true, xf: mk::unmat(&xf) }, pre: None, user_xf: None },
                    opts: opts.clone(),
                }
            } else {
                op.clone()
            }
        }
        _ => op.clone(),
    }
}

pub fn run_c14(h: &History, st: &mut Stats) -> Outcome {
    let mut p = World::new(&h.surfaces);
    let mut t = World::new(&h.surfaces);
    let budget = h.tick_budget;
    let (w, hh) = (h.surfaces[0].w, h.surfaces[0].h);
    if h.variant & V14_COVERING_CLIP != 0 {
        let pad = (h.variant >> 8) as i32 % 7;
        let step = Step { surf: 0, op: Op::PushClipRect([-pad, -pad, w + pad, hh + pad]), nop: 0 };
        raqote::verif::set_buggify(0);
        if let Err(pi) = exec(&mut t, &step, budget, st) {
            st.abort(&panic_class(&pi));
            return Outcome::Aborted(panic_desc(&pi));
        }
        st.count("perturbation.neutral_bracket");
    }
    let mut eligible = 0;
    for (i, step) in h.steps.iter().enumerate() {
        if step.surf != 0 {
            continue;
        }
        raqote::verif::set_buggify(h.buggify);
        let r = exec(&mut p, step, budget, st);
        raqote::verif::set_buggify(0);
        if let Err(pi) = r {
            st.abort(&panic_class(&pi));
            return Outcome::Aborted(panic_desc(&pi));
        }
        let top = c14_twin_op(&step.op, h.variant);
        if top != step.op {
            st.count("perturbation.substitute");
        }
        if matches!(step.op, Op::FillRect { .. } | Op::Clear { .. } | Op::DrawImageAt { .. }) {
            eligible += 1;
        }
        let tstep = Step { surf: 0, op: top, nop: 0 };
        let bracket = h.variant & V14_COVER_EACH != 0 && matches!(step.op, Op::FillRect { .. } | Op::Clear { .. } | Op::DrawImageAt { .. });
        let pad = (h.variant >> 8) as i32 % 7;
        let mut seq: Vec<Step> = Vec::new();
        if bracket {
            seq.push(Step { surf: 0, op: Op::PushClipRect([-pad, -pad, w + pad, hh + pad]), nop: 0 });
            st.count("perturbation.neutral_bracket");
        }
        seq.push(tstep.clone());
        if bracket {
            seq.push(Step { surf: 0, op: Op::PopClip, nop: 0 });
        }
        for s in &seq {
            if let Err(pi) = exec(&mut t, s, budget, st) {
                st.abort(&panic_class(&pi));
                return Outcome::Aborted(format!("twin: {}", panic_desc(&pi)));
            }
        }
        if bracket && (t.surfs[0].clip_depth() != p.surfs[0].clip_depth()) {
            return viol("c14.covering-clip-bracket-changed-the-clip-stack", i, format!("clip depth {} after push/pop of a covering clip around {}, {} without", t.surfs[0].clip_depth(), step.op.name(), p.surfs[0].clip_depth()));
        }
        if let Some(d) = first_diff(p.surfs[0].pixels(), t.surfs[0].pixels(), w) {
            return viol(
                "c14.fast-path-differs",
                i,
                format!("{} (optimised route) vs {} (general route, variant {:#x}, buggify {:#x}): {}", step.op.name(), tstep.op.name(), h.variant, h.buggify, d),
            );
        }
    }
    st.nontrivial_flag = eligible > 0;
    Outcome::Ok
}

// ---------------------------------------------------------------------------
// C11

pub fn gen_c11(rng: &mut Rng, thorough: bool) -> History {
    let surf = if thorough && rng.chance(1, 12) { gen_surface_big(rng, true) } else { gen_surface(rng, if thorough { 64 } else { 33 }, false, true) };
    let mut em = Emit::new(vec![surf]);
    let mut draw = DrawCfg::general();
    // strokes are compared through the user-space outline, which is exact for polylines only
    draw.path = if rng.chance(1, 2) { PATH_ANY } else { PATH_POLY };
    draw.kinds = [8, 4, 5, 1, 2, 2, 1];
    if rng.chance(1, 4) {
        draw.blend = BlendProfile::Uniform;
    }
    let cfg = SceneCfg {
        min_ops: 3,
        max_ops: if thorough { 24 } else { 12 },
        max_clip: if thorough { 3 } else { 2 },
        max_layer: if thorough { 2 } else { 1 },
        p_clip: 80,
        p_layer: 40,
        p_pop: 80,
        p_transform: 300,
        p_nop: 0,
        p_restart: 0,
        p_resync: 0,
        allow_singular: true,
        draw,
        aligned_clip_paths: false,
        early_clip_pop: false,
        layer_blend: BlendProfile::Common,
    };
    let (w, h) = em.dims(0);
    // the integer-translation image shaders are an internal fast path: deny it in the primary
    // execution on a quarter of the runs (the twin keeps it), so that a wrong decision to take
    // it is seen as well
    let buggify = if rng.chance(1, 4) { 2 } else { 0 };
    if rng.chance(1, 8) {
        // "line width scales with T": geometry given in device pixels, drawn through a uniform
        // scale by a (large or small) power of two with all user-space lengths divided by it
        let k = if rng.chance(1, 2) { rng.range(3, 13) } else { -rng.range(3, 12) };
        let s = (2.0f32).powi(k);
        em.push(0, Op::SetTransform(mk::unmat(&raqote::Transform::scale(s, s))));
        let mut dcfg = cfg.draw.clone();
        dcfg.kinds = [4, 2, 6, 0, 0, 0, 0];
        dcfg.sources = SRC_SOLID;
        let n = 1 + rng.usize(5);
        for _ in 0..n {
            let mut op = gen_draw(rng, w, h, &dcfg);
            scale_geometry(&mut op, 1. / s);
            em.push(0, op);
        }
        return em.finish(buggify, 0, 2_000_000_000, format!("c11 power-of-two scale 2^{}", k));
    }
    if rng.chance(1, 12) && w <= 12 && h <= 12 && w > 0 && h > 0 {
        // "a pixel's colour is the source evaluated at T^-1 of the pixel centre": under the
        // minifying transform device = user/k + (k-1)/(2k) the centre of device pixel (x, y) is
        // the user point (k x + 1/2, k y + 1/2), which is the centre of pixel (k x, k y) of the
        // same picture drawn under the identity. With k a power of two and sources whose own
        // numbers are dyadic every matrix product is exact, so the colours have to agree bit for
        // bit (run_c11 does the comparison on targets of its own, see lattice_correspondence)
        let k = rng.pick(&[2, 4, 8, 16]);
        em.push(0, Op::SetTransform(lattice_transform(k)));
        let n = 1 + rng.usize(3);
        for _ in 0..n {
            let src = gen_dyadic_source(rng, k * w, k * h);
            let opts = Opts { blend: if rng.chance(1, 2) { 1 } else { BLEND_SRC_OVER }, alpha: F(if rng.chance(1, 3) { rng.unit() } else { 1. }), aa: !rng.chance(1, 4) };
            let r = [F(-(k as f32)), F(-(k as f32)), F(((w + 2) * k) as f32), F(((h + 2) * k) as f32)];
            if rng.chance(1, 2) {
                em.push(0, Op::FillRect { rect: r, src, opts });
            } else {
                em.push(0, Op::Fill { path: PathSpec::new(false, vec![Seg::Rect(r[0], r[1], r[2], r[3])]), src, opts });
            }
        }
        return em.finish(buggify, V11_LATTICE, 2_000_000_000, format!("c11 lattice k={}", k));
    }
    // start with a transform so that most draws happen under a non-identity CTM
    em.push(0, Op::SetTransform(gen_transform(rng, w, h, false)));
    gen_scene(rng, &mut em, 0, &cfg);
    em.finish(buggify, 0, 2_000_000_000, "c11".to_string())
}

pub const V11_LATTICE: u32 = 1;

/// device = user / k + (k - 1) / (2 k): exact for k a power of two
fn lattice_transform(k: i32) -> Mat {
    let kf = k as f32;
    let c = (kf - 1.) / (2. * kf);
    mk::unmat(&raqote::Transform::new(1. / kf, 0., 0., 1. / kf, c, c))
}

fn lattice_k(ctm: &Mat) -> Option<i32> {
    [2, 4, 8, 16].iter().copied().find(|k| lattice_transform(*k).iter().zip(ctm.iter()).all(|(a, b)| a.0.to_bits() == b.0.to_bits()))
}

/// Non-solid sources all of whose numbers are dyadic with few bits (positions multiples of 1/4,
/// lengths and radii powers of two, own transforms made of 0 and 2^n): every matrix product and
/// every pixel-centre offset the library forms from them and a lattice transform is exact. The
/// linear parts are kept non-negative: sw-composite's float_to_fixed adds 0.5 and truncates
/// towards zero, so a negative entry comes out one unit of 2^-16 too large, which is multiplied by
/// different pixel indices in the two renderings (with such entries the colours agree only up to
/// one or two steps of the colour table - seen while building this oracle).
fn gen_dyadic_source(rng: &mut Rng, w: i32, h: i32) -> SrcSpec {
    let q = |rng: &mut Rng, e: i32| F(rng.range(-2 * e, 6 * e) as f32 / 4.);
    let p2 = |rng: &mut Rng| [q(rng, w), q(rng, h)];
    let pow2 = |rng: &mut Rng| F((2.0f32).powi(rng.range(1, 7)));
    let spread = rng.below(3) as u8;
    let kind = match rng.below(6) {
        0 => {
            let start = p2(rng);
            let len = pow2(rng).0;
            let end = if rng.chance(1, 2) { [F(start[0].0 + len), start[1]] } else { [start[0], F(start[1].0 + len)] };
            SrcKind::Linear { stops: gen_stops(rng), spread, start, end }
        }
        1 => SrcKind::Radial { stops: gen_stops(rng), spread, center: p2(rng), radius: pow2(rng) },
        2 => {
            let r2 = pow2(rng);
            let r1 = F(r2.0 / (2.0f32).powi(rng.range(1, 3)));
            let c2 = p2(rng);
            let c1 = if rng.chance(1, 3) { p2(rng) } else { [F(c2[0].0 + rng.range(-2, 2) as f32 * r1.0 / 4.), F(c2[1].0 + rng.range(-2, 2) as f32 * r1.0 / 4.)] };
            SrcKind::TwoCircle { stops: gen_stops(rng), spread, c1, r1, c2, r2 }
        }
        3 | 4 => {
            let a0 = rng.range(0, 300) as f32;
            SrcKind::Sweep { stops: gen_stops(rng), spread, center: p2(rng), a0: F(a0), a1: F(a0 + rng.range(20, 360) as f32) }
        }
        _ => {
            // image: scaled by a power of two (texels several pixels large, or several texels per
            // pixel), shifted by a dyadic amount, possibly mirrored or with the axes exchanged
            let sc = (2.0f32).powi(rng.range(-4, 1));
            let (sx, sy) = (sc, sc * (2.0f32).powi(rng.range(-1, 1)));
            let (tx, ty) = (rng.range(-8, 8) as f32 / 4., rng.range(-8, 8) as f32 / 4.);
            let t = if rng.chance(1, 4) { raqote::Transform::new(0., sx, sy, 0., tx, ty) } else { raqote::Transform::new(sx, 0., 0., sy, tx, ty) };
            SrcKind::Image { img: gen_image(rng), repeat: rng.chance(1, 2), bilinear: rng.chance(1, 2), xf: mk::unmat(&t) }
        }
    };
    // now and then a user-space transform of its own in front (gradients): anisotropic scale,
    // axis swap, power-of-two scale
    let user_xf = if !matches!(kind, SrcKind::Image { .. }) && rng.chance(1, 4) {
        let sc = (2.0f32).powi(rng.range(-2, 2));
        let t = match rng.below(3) {
            0 => raqote::Transform::new(sc, 0., 0., 2. * sc, rng.range(-8, 8) as f32, 0.),
            1 => raqote::Transform::new(0., sc, sc, 0., 0., rng.range(-8, 8) as f32),
            _ => raqote::Transform::new(sc, 0., 0., sc, rng.range(-8, 8) as f32 / 2., rng.range(-8, 8) as f32 / 2.),
        };
        Some(mk::unmat(&t))
    } else {
        None
    };
    SrcSpec { kind, pre: None, user_xf }
}

/// Ok(true): every lattice pixel agrees bit for bit; Ok(false): some only within the tolerance of
/// the fallback (value range of the 3x3 neighbourhood +- 2 per channel); Err: mismatch
fn lattice_correspondence(src: &SrcSpec, opts: &Opts, k: i32, w: i32, h: i32) -> Result<bool, String> {
    use raqote::*;
    let o = DrawOptions { blend_mode: BlendMode::Src, alpha: opts.alpha.0, antialias: if opts.aa { AntialiasMode::Gray } else { AntialiasMode::None } };
    let source = mk::build_source(src);
    let (bw, bh) = (k * w, k * h);
    let kf = k as f32;
    let mut big = DrawTarget::new(bw, bh);
    big.fill_rect(-kf, -kf, (bw + 2 * k) as f32, (bh + 2 * k) as f32, &source, &o);
    let mut small = DrawTarget::new(w, h);
    small.set_transform(&mk::mat(&lattice_transform(k)));
    small.fill_rect(-kf, -kf, (bw + 2 * k) as f32, (bh + 2 * k) as f32, &source, &o);
    let a = big.get_data();
    let b = small.get_data();
    let mut exact = true;
    for y in 0..h {
        for x in 0..w {
            let got = b[(y * w + x) as usize];
            let want = a[(k * y * bw + k * x) as usize];
            if got == want {
                continue;
            }
            exact = false;
            for c in 0..4 {
                let g = (got >> (8 * c)) & 0xff;
                let (mut lo, mut hi) = (255u32, 0u32);
                for dy in -1..=1 {
                    for dx in -1..=1 {
                        let (xx, yy) = (k * x + dx, k * y + dy);
                        if xx < 0 || yy < 0 || xx >= bw || yy >= bh {
                            continue;
                        }
                        let v = (a[(yy * bw + xx) as usize] >> (8 * c)) & 0xff;
                        lo = lo.min(v);
                        hi = hi.max(v);
                    }
                }
                if g + 2 < lo || g > hi + 2 {
                    return Err(format!(
                        "device pixel ({},{}) under device = user/{} + {} is {:08x}; the identity rendering has {:08x} at the same user point (pixel ({},{})) and channel {} within {}..{} around it",
                        x, y, k, (kf - 1.) / (2. * kf), got, want, k * x, k * y, c, lo, hi
                    ));
                }
            }
        }
    }
    Ok(exact)
}

fn has_curves(p: &PathSpec) -> bool {
    p.segs.iter().any(|s| matches!(s, Seg::Q(..) | Seg::C(..) | Seg::Arc(..)))
}

/// The same call expressed under the identity transform. None: the twin skips the call.
fn c11_twin_op(op: &Op, ctm: &Mat, st: &mut Stats) -> Option<Op> {
    let t = mk::mat(ctm);
    let identity = t == raqote::Transform::identity();
    let inv = t.inverse();
    let with_pre = |s: &SrcSpec| -> SrcSpec {
        let mut s = s.clone();
        if !s.is_solid() {
            s.pre = inv.map(|i| mk::unmat(&i));
        }
        s
    };
    let xf_path = |p: &PathSpec| -> PathSpec {
        let mut p = p.clone();
        p.xf = Some(*ctm);
        p
    };
    match op {
        Op::SetTransform(_) => None,
        Op::PushClip(p) => Some(Op::PushClip(xf_path(p))),
        Op::Fill { path, src, opts } => {
            if inv.is_none() {
                st.count("c11.singular_draws");
                return None;
            }
            Some(Op::Fill { path: xf_path(path), src: with_pre(src), opts: opts.clone() })
        }
        Op::FillRect { rect, src, opts } => {
            if inv.is_none() {
                st.count("c11.singular_draws");
                return None;
            }
            if identity {
                return Some(op.clone());
            }
            Some(Op::Fill {
                path: xf_path(&PathSpec::new(false, vec![Seg::Rect(rect[0], rect[1], rect[2], rect[3])])),
                src: with_pre(src),
                opts: opts.clone(),
            })
        }
        Op::Stroke { path, src, style, opts } => {
            if inv.is_none() {
                st.count("c11.singular_draws");
                return None;
            }
            if has_curves(path) {
                // flattening happens in user space with a tolerance that is an implementation
                // detail: compare strokes of curved paths only under the identity
                if identity {
                    return Some(op.clone());
                }
                return Some(Op::ReadViews); // marker: not comparable, see run_c11
            }
            let mut p = path.clone();
            p.stroke_first = Some(Box::new(style.clone()));
            p.xf = Some(*ctm);
            Some(Op::Fill { path: p, src: with_pre(src), opts: opts.clone() })
        }
        Op::Mask { src, x, y, w, h, data } => {
            if inv.is_none() {
                st.count("c11.singular_draws");
                return None;
            }
            Some(Op::Mask { src: with_pre(src), x: *x, y: *y, w: *w, h: *h, data: data.clone() })
        }
        Op::DrawImageAt { x, y, img, opts } => {
            if inv.is_none() {
                st.count("c11.singular_draws");
                return None;
            }
            if identity {
                return Some(op.clone());
            }
            let xf = raqote::Transform::translation(-x.0, -y.0).then_scale(img.w as f32 / img.w as f32, img.h as f32 / img.h as f32);
            Some(Op::Fill {
                path: xf_path(&PathSpec::new(false, vec![Seg::Rect(*x, *y, F(img.w as f32), F(img.h as f32))])),
                src: with_pre(&SrcSpec { kind: SrcKind::Image { img: img.clone(), repeat: false, bilinear: true, xf: mk::unmat(&xf) }, pre: None, user_xf: None }),
                opts: opts.clone(),
            })
        }
        Op::DrawImageSized { w, h, x, y, img, opts } => {
            if inv.is_none() {
                st.count("c11.singular_draws");
                return None;
            }
            if identity {
                return Some(op.clone());
            }
            let xf = raqote::Transform::translation(-x.0, -y.0).then_scale(img.w as f32 / w.0, img.h as f32 / h.0);
            Some(Op::Fill {
                path: xf_path(&PathSpec::new(false, vec![Seg::Rect(*x, *y, *w, *h)])),
                src: with_pre(&SrcSpec { kind: SrcKind::Image { img: img.clone(), repeat: false, bilinear: true, xf: mk::unmat(&xf) }, pre: None, user_xf: None }),
                opts: opts.clone(),
            })
        }
        // device space / CTM independent calls: the very same call under the identity
        _ => Some(op.clone()),
    }
}

pub fn run_c11(h: &History, st: &mut Stats) -> Outcome {
    raqote::verif::set_buggify(0);
    let mut p = World::new(&h.surfaces);
    let mut t = World::new(&h.surfaces);
    let budget = h.tick_budget;
    let mut transformed_draws = 0;
    for (i, step) in h.steps.iter().enumerate() {
        let si = step.surf;
        if si >= p.surfs.len() {
            continue;
        }
        let ctm = p.shadows[si].ctm;
        let before = p.surfs[si].pixels().to_vec();
        raqote::verif::set_buggify(h.buggify);
        let r = exec(&mut p, step, budget, st);
        raqote::verif::set_buggify(0);
        if let Err(pi) = r {
            st.abort(&panic_class(&pi));
            return Outcome::Aborted(panic_desc(&pi));
        }
        let w = p.surfs[si].w();
        // "line width scales with T": under a uniform scale s the stroke of P with width w is the
        // stroke of s.P with width s.w (dashes likewise) under the identity
        if let Op::Stroke { path, style, opts, .. } = &step.op {
            let t = mk::mat(&ctm);
            if similarity_scale(&t).is_some() {
                match mk::guarded(budget, || stroke_similarity(path, style, opts, &ctm, w, p.surfs[si].h())) {
                    Ok(Ok(())) => st.count("c11.stroke_similarity_checked"),
                    Ok(Err(d)) => {
                        return viol("c11.stroke-width-does-not-scale", i, format!("stroke under the similarity transform {:?} (scale {}) differs from the stroke of the transformed path with the scaled style under the identity: {}", t, similarity_scale(&t).unwrap_or(0.), d));
                    }
                    Err(pi) => {
                        st.abort(&panic_class(&pi));
                        return Outcome::Aborted(format!("similarity reference: {}", panic_desc(&pi)));
                    }
                }
            }
        }
        if h.variant & V11_LATTICE != 0 {
            if let (Op::Fill { src, opts, .. } | Op::FillRect { src, opts, .. }, Some(k)) = (&step.op, lattice_k(&ctm)) {
                if !src.is_solid() {
                    match mk::guarded(budget, || lattice_correspondence(src, opts, k, w, p.surfs[si].h())) {
                        Ok(Ok(true)) => st.count("c11.lattice_correspondence_exact"),
                        Ok(Ok(false)) => st.count("c11.lattice_correspondence_within_tolerance"),
                        Ok(Err(d)) => return viol("c11.source-not-sampled-at-inverse-transform-of-pixel-centre", i, d),
                        Err(pi) => {
                            st.abort(&panic_class(&pi));
                            return Outcome::Aborted(format!("lattice reference: {}", panic_desc(&pi)));
                        }
                    }
                }
            }
        }
        if let Err(v) = check_shadow(&p, si, "c11", i) {
            return Outcome::Violation(v);
        }
        match c11_twin_op(&step.op, &ctm, st) {
            None => {
                if !matches!(step.op, Op::SetTransform(_)) {
                    // a non-invertible transform draws nothing
                    if let Some(d) = first_diff(&before, p.surfs[si].pixels(), w) {
                        return viol("c11.singular-transform-drew", i, format!("{} under a singular transform changed {}", step.op.name(), d));
                    }
                }
            }
            Some(Op::ReadViews) if !matches!(step.op, Op::ReadViews) => {
                // Curved stroke under a non-identity CTM. The flattening tolerance is an
                // implementation detail, so no bit-exact twin exists; what the statement fixes
                // is the geometry: the stroke is the image under T of the user-space stroke.
                // Checked on canonical white-on-transparent renders with a 2 px margin.
                if let Op::Stroke { path, style, opts, .. } = &step.op {
                    match mk::guarded(budget, || curved_stroke_geometry(path, style, opts, &ctm, w, p.surfs[si].h())) {
                        Ok(Ok(true)) => st.count("c11.curved_stroke_geometry_checked"),
                        Ok(Ok(false)) => st.count("c11.curved_stroke_geometry_skipped_ill_conditioned"),
                        Ok(Err(d)) => {
                            return viol("c11.curved-stroke-geometry", i, format!("stroke of a curved path under CTM {:?} is not the image of the user-space stroke: {}", mk::mat(&ctm), d));
                        }
                        Err(pi) => {
                            st.abort(&panic_class(&pi));
                            return Outcome::Aborted(format!("curved stroke reference: {}", panic_desc(&pi)));
                        }
                    }
                }
                // bring the twin along
                let s = &p.surfs[si];
                if p.shadows[si].layer_depth() == 0 {
                    let mut sh = t.shadows[si].clone();
                    sh.ctm = mat_identity();
                    // the twin's clip stack was pushed under the identity with pre-transformed paths
                    t.surfs[si] = World::fresh_like(s.w(), s.h(), s.pixels(), &sh);
                    st.count("c11.curved_stroke_not_compared");
                } else {
                    st.abort("c11:curved stroke inside layer");
                    return Outcome::Aborted("curved stroke inside a layer under a non-identity CTM is not comparable".into());
                }
            }
            Some(top) => {
                if top != step.op {
                    st.count("twin.canonicalised_calls");
                    if step.op.is_draw() {
                        transformed_draws += 1;
                    }
                }
                let tstep = Step { surf: si, op: top, nop: 0 };
                if let Err(pi) = exec(&mut t, &tstep, budget, st) {
                    st.abort(&panic_class(&pi));
                    return Outcome::Aborted(format!("twin: {}", panic_desc(&pi)));
                }
            }
        }
        if let Some(d) = first_diff(p.surfs[si].pixels(), t.surfs[si].pixels(), w) {
            return viol(
                "c11.canonical-twin-differs",
                i,
                format!("{} under CTM {:?} vs the same call with the CTM folded into its arguments: {}", step.op.name(), mk::mat(&ctm), d),
            );
        }
    }
    st.nontrivial_flag = transformed_draws >= 1;
    Outcome::Ok
}

/// `got` against `reference` (alpha of white-on-transparent renders) with a margin of M pixels:
/// pixels deep inside the reference region must be covered, pixels deep outside must not be
fn compare_regions(got: &[u32], reference: &[u32], w: i32, h: i32) -> Result<(), String> {
    const M: i32 = 2;
    // A stroke much wider than the radius of its path has a degenerate inner offset curve: where
    // the outline's windings just cancel, a hole of a pixel or two may or may not open, depending
    // on the last bit of the coordinates (which differ between the two renderings). A region
    // that is really displaced or misshapen disagrees on many pixels: fewer than MIN_PIXELS
    // offending pixels are not reported (a false alarm under VERIF_SEED=121, DESIGN 10.2 item 11).
    const MIN_PIXELS: usize = 6;
    let mut first: Option<String> = None;
    let mut count = 0usize;
    for y in 0..h {
        for x in 0..w {
            let mut lo = 255u32;
            let mut hi = 0u32;
            for dy in -M..=M {
                for dx in -M..=M {
                    let (xx, yy) = (x + dx, y + dy);
                    if xx < 0 || yy < 0 || xx >= w || yy >= h {
                        // beyond the surface nothing is known
                        lo = 0;
                        hi = 255;
                    } else {
                        let v = reference[(yy * w + xx) as usize] >> 24;
                        lo = lo.min(v);
                        hi = hi.max(v);
                    }
                }
            }
            let g = got[(y * w + x) as usize] >> 24;
            if lo == 255 && g < 128 {
                count += 1;
                first.get_or_insert_with(|| format!("pixel ({},{}) lies more than {} px inside the region but has coverage {}", x, y, M, g));
            }
            if hi == 0 && g > 127 {
                count += 1;
                first.get_or_insert_with(|| format!("pixel ({},{}) lies more than {} px outside the region but has coverage {}", x, y, M, g));
            }
        }
    }
    match first {
        Some(d) if count >= MIN_PIXELS => Err(format!("{} ({} such pixels)", d, count)),
        _ => Ok(()),
    }
}

/// Some(s): t is a similarity (rotation or reflection, uniform scale s, translation) other than
/// the identity - the transforms under which "the image under T of the user-space stroke" is
/// itself a stroke, of the transformed path with width, dashes and offset times s
fn similarity_scale(t: &raqote::Transform) -> Option<f32> {
    let (a, b, c, d) = (t.m11 as f64, t.m12 as f64, t.m21 as f64, t.m22 as f64);
    let s2 = a * a + b * b;
    if !(s2 > 1e-6 && s2 < 1e6) || !t.m31.is_finite() || !t.m32.is_finite() {
        return None;
    }
    if ((c * c + d * d) - s2).abs() > 1e-5 * s2 || (a * c + b * d).abs() > 1e-5 * s2 {
        return None;
    }
    if *t == raqote::Transform::identity() {
        return None;
    }
    Some(s2.sqrt() as f32)
}

fn stroke_similarity(path: &PathSpec, style: &StrokeSpec, opts: &Opts, ctm: &Mat, w: i32, h: i32) -> Result<(), String> {
    use raqote::*;
    if w <= 0 || h <= 0 {
        return Ok(());
    }
    let t = mk::mat(ctm);
    let s = match similarity_scale(&t) {
        Some(s) => s,
        None => return Ok(()),
    };
    // A curved path stroked with a pen wider than its radius of curvature has a degenerate inner
    // offset curve; where the windings of the outline cancel there depends on the last bits of
    // the coordinates, which differ between the two renderings - regions of dozens of pixels
    // flip (a false alarm under VERIF_SEED=121, DESIGN 10.2 item 11). Curved paths are compared
    // only with pens of at most two device pixels; polylines with any pen.
    if has_curves(path) && style.width.0 * s > 2. {
        return Ok(());
    }
    let white = Source::Solid(SolidSource { r: 255, g: 255, b: 255, a: 255 });
    // Always antialiased: this is a comparison of regions. Without antialiasing a stroke thinner
    // than a pixel legitimately vanishes wherever it lies within one pixel column ([floor(x0),
    // floor(x1)) is empty), and whether it does depends on the last bit of its coordinates -
    // which differ between the two renderings (a false alarm under VERIF_SEED=43, DESIGN 10.2)
    let _ = opts;
    let o = DrawOptions { blend_mode: BlendMode::SrcOver, alpha: 1., antialias: AntialiasMode::Gray };
    let mut a = DrawTarget::new(w, h);
    a.set_transform(&t);
    a.stroke(&mk::build_path(path), &white, &mk::build_style(style), &o);
    let mut scaled = path.clone();
    scaled.xf = Some(*ctm);
    let mut st2 = style.clone();
    st2.width.0 *= s;
    st2.dash_offset.0 *= s;
    for d in st2.dash_array.iter_mut() {
        d.0 *= s;
    }
    let mut b = DrawTarget::new(w, h);
    b.stroke(&mk::build_path(&scaled), &white, &mk::build_style(&st2), &o);
    // miter spikes depend on the flattening of curves, see curved_stroke_geometry
    if style.join % 3 == 1 && has_curves(path) && style.miter_limit.0 * st2.width.0 * 0.5 > 1.5 {
        return Ok(());
    }
    compare_regions(a.get_data(), b.get_data(), w, h)
}

/// Ok(true): checked and fine, Ok(false): transform too anisotropic for the margin, Err: mismatch
fn curved_stroke_geometry(path: &PathSpec, style: &StrokeSpec, opts: &Opts, ctm: &Mat, w: i32, h: i32) -> Result<bool, String> {
    use raqote::*;
    let t = mk::mat(ctm);
    let det = t.determinant().abs();
    if det == 0. || w <= 0 || h <= 0 {
        return Ok(false);
    }
    let biggest = t.m11.abs().max(t.m12.abs()).max(t.m21.abs()).max(t.m22.abs());
    if biggest / det.sqrt() > 3. {
        return Ok(false);
    }
    // the length of a miter spike at a sharp corner depends strongly on the direction of the
    // first chord of a flattened curve, i.e. on the flattening tolerance: not comparable
    if style.join % 3 == 1 && style.miter_limit.0 * style.width.0 * 0.5 * biggest > 1.5 {
        return Ok(false);
    }
    let white = Source::Solid(SolidSource { r: 255, g: 255, b: 255, a: 255 });
    // always antialiased, see stroke_similarity
    let _ = opts;
    let o = DrawOptions { blend_mode: BlendMode::SrcOver, alpha: 1., antialias: AntialiasMode::Gray };
    let mut a = DrawTarget::new(w, h);
    a.set_transform(&t);
    a.stroke(&mk::build_path(path), &white, &mk::build_style(style), &o);
    // reference: the user-space outline (flattened finely), mapped by T, filled under the identity
    let mut r = path.clone();
    r.flatten = Some(F(0.1 / det.sqrt()));
    r.stroke_first = Some(Box::new(style.clone()));
    r.xf = Some(*ctm);
    let mut b = DrawTarget::new(w, h);
    b.fill(&mk::build_path(&r), &white, &o);
    compare_regions(a.get_data(), b.get_data(), w, h)?;
    Ok(true)
}

#[allow(dead_code)]
fn _unused(_: &gen::SceneCfg) {}
