//! The operation alphabet of the simulator: plain data, (de)serialisable, so that a
//! history is a value that can be generated from a seed, minimised and replayed.

use serde::{Deserialize, Deserializer, Serialize, Serializer};

/// f32 that serialises as "<hex bits>~<decimal>" so that replay is bit exact
/// (NaN payloads, -0, infinities) and still readable.
#[derive(Clone, Copy, Debug, PartialEq)]
pub struct F(pub f32);

impl Serialize for F {
    fn serialize<S: Serializer>(&self, s: S) -> Result<S::Ok, S::Error> {
        s.serialize_str(&format!("{:08x}~{}", self.0.to_bits(), self.0))
    }
}

impl<'de> Deserialize<'de> for F {
    fn deserialize<D: Deserializer<'de>>(d: D) -> Result<F, D::Error> {
        let s = String::deserialize(d)?;
        let hex = s.split('~').next().unwrap_or("");
        let bits = u32::from_str_radix(hex, 16).map_err(serde::de::Error::custom)?;
        Ok(F(f32::from_bits(bits)))
    }
}

pub type Mat = [F; 6];

pub fn mat_identity() -> Mat {
    [F(1.), F(0.), F(0.), F(1.), F(0.), F(0.)]
}

#[derive(Clone, Debug, PartialEq, Serialize, Deserialize)]
pub enum Seg {
    M(F, F),
    L(F, F),
    Q(F, F, F, F),
    C(F, F, F, F, F, F),
    Z,
    /// PathBuilder::arc(x, y, r, start, sweep)
    Arc(F, F, F, F, F),
    /// PathBuilder::rect(x, y, w, h)
    Rect(F, F, F, F),
}

#[derive(Clone, Debug, PartialEq, Serialize, Deserialize)]
pub struct PathSpec {
    pub evenodd: bool,
    pub segs: Vec<Seg>,
    /// reference only: flatten with this tolerance first (as DrawTarget::stroke does for curves)
    #[serde(default, skip_serializing_if = "Option::is_none")]
    pub flatten: Option<F>,
    /// twin only: replace the path by the outline stroke_to_path(dash_path(path)) of this style
    /// (the winding then is the outline's own)
    #[serde(default, skip_serializing_if = "Option::is_none")]
    pub stroke_first: Option<Box<StrokeSpec>>,
    /// twin only: apply Path::transform afterwards
    #[serde(default, skip_serializing_if = "Option::is_none")]
    pub xf: Option<Mat>,
}

impl PathSpec {
    pub fn new(evenodd: bool, segs: Vec<Seg>) -> PathSpec {
        PathSpec { evenodd, segs, flatten: None, stroke_first: None, xf: None }
    }
}

#[derive(Clone, Debug, PartialEq, Serialize, Deserialize)]
pub struct ImgSpec {
    pub w: i32,
    pub h: i32,
    pub data: Vec<u32>,
}

#[derive(Clone, Debug, PartialEq, Serialize, Deserialize)]
pub struct Stop {
    pub pos: F,
    /// unpremultiplied a, r, g, b
    pub argb: [u8; 4],
}

#[derive(Clone, Debug, PartialEq, Serialize, Deserialize)]
pub enum SrcKind {
    /// premultiplied components given directly
    Solid { a: u8, r: u8, g: u8, b: u8 },
    /// built with SolidSource::from_unpremultiplied_argb
    SolidUnpremul { a: u8, r: u8, g: u8, b: u8 },
    /// built with Source::from(Color::new(a, r, g, b))
    SolidColor { a: u8, r: u8, g: u8, b: u8 },
    Image { img: ImgSpec, repeat: bool, bilinear: bool, xf: Mat },
    Linear { stops: Vec<Stop>, spread: u8, start: [F; 2], end: [F; 2] },
    Radial { stops: Vec<Stop>, spread: u8, center: [F; 2], radius: F },
    TwoCircle { stops: Vec<Stop>, spread: u8, c1: [F; 2], r1: F, c2: [F; 2], r2: F },
    Sweep { stops: Vec<Stop>, spread: u8, center: [F; 2], a0: F, a1: F },
}

#[derive(Clone, Debug, PartialEq, Serialize, Deserialize)]
pub struct SrcSpec {
    pub kind: SrcKind,
    /// extra transform applied in front of the source's own transform
    /// (used by the canonicalised twin: CTM^-1)
    pub pre: Option<Mat>,
    /// an additional user-space -> source-space transform composed in front of the transform
    /// the constructor computes (gradients only: a source "built directly" with its own transform)
    #[serde(default, skip_serializing_if = "Option::is_none")]
    pub user_xf: Option<Mat>,
}

impl SrcSpec {
    pub fn solid(a: u8, r: u8, g: u8, b: u8) -> SrcSpec {
        SrcSpec { kind: SrcKind::Solid { a, r, g, b }, pre: None, user_xf: None }
    }
    pub fn is_solid(&self) -> bool {
        matches!(self.kind, SrcKind::Solid { .. } | SrcKind::SolidUnpremul { .. } | SrcKind::SolidColor { .. })
    }
}

pub const BLEND_NAMES: [&str; 28] = [
    "Dst", "Src", "Clear", "SrcOver", "DstOver", "SrcIn", "DstIn", "SrcOut", "DstOut", "SrcAtop", "DstAtop", "Xor",
    "Add", "Screen", "Overlay", "Darken", "Lighten", "ColorDodge", "ColorBurn", "HardLight", "SoftLight",
    "Difference", "Exclusion", "Multiply", "Hue", "Saturation", "Color", "Luminosity",
];
pub const BLEND_SRC_OVER: u8 = 3;
pub const BLEND_DST: u8 = 0;
pub const BLEND_SRC: u8 = 1;

#[derive(Clone, Debug, PartialEq, Serialize, Deserialize)]
pub struct Opts {
    pub blend: u8,
    pub alpha: F,
    pub aa: bool,
}

#[derive(Clone, Debug, PartialEq, Serialize, Deserialize)]
pub struct StrokeSpec {
    pub width: F,
    /// 0 round, 1 square, 2 butt
    pub cap: u8,
    /// 0 round, 1 miter, 2 bevel
    pub join: u8,
    pub miter_limit: F,
    pub dash_array: Vec<F>,
    pub dash_offset: F,
}

#[derive(Clone, Debug, PartialEq, Serialize, Deserialize)]
pub enum IoFault {
    None,
    /// RLIMIT_FSIZE = n bytes (short write then EFBIG)
    FileLimit(u64),
    /// write to /dev/full (ENOSPC at flush)
    DevFull,
    /// directory of the path does not exist (ENOENT)
    NoDir,
    /// the path is a directory (EISDIR)
    IsDir,
    /// no fault, but not a fresh path either: a longer file already exists there (the call has
    /// to replace it, not write into it)
    Overwrite,
    /// no fault, and not a regular file: /dev/null takes every byte (the call has to return Ok)
    DevNull,
}

#[derive(Clone, Debug, PartialEq, Serialize, Deserialize)]
pub enum Op {
    SetTransform(Mat),
    PushClipRect([i32; 4]),
    PushClip(PathSpec),
    PopClip,
    /// plain = push_layer(opacity), else push_layer_with_blend
    PushLayer { opacity: F, blend: u8, plain: bool },
    PopLayer,
    Fill { path: PathSpec, src: SrcSpec, opts: Opts },
    FillRect { rect: [F; 4], src: SrcSpec, opts: Opts },
    Stroke { path: PathSpec, src: SrcSpec, style: StrokeSpec, opts: Opts },
    Clear { argb: [u8; 4] },
    Mask { src: SrcSpec, x: i32, y: i32, w: i32, h: i32, data: Vec<u8> },
    DrawImageAt { x: F, y: F, img: ImgSpec, opts: Opts },
    DrawImageSized { w: F, h: F, x: F, y: F, img: ImgSpec, opts: Opts },
    CopySurface { from: usize, rect: [i32; 4], dst: [i32; 2] },
    BlendSurface { from: usize, rect: [i32; 4], dst: [i32; 2], blend: u8 },
    BlendSurfaceAlpha { from: usize, rect: [i32; 4], dst: [i32; 2], alpha: F },
    Poke32 { idx: usize, val: u32 },
    Poke8 { idx: usize, val: u8 },
    ReadViews,
    /// tear the target down to its pixels and rebuild it: 0 into_vec/from_vec,
    /// 1 into_inner/from_backing(Vec), 2 from_backing(custom Backing), 3 get_data copy into new()
    Restart(u8),
    /// rebuild the *twin* from the primary's visible state (C10)
    Resync,
    WritePng { fault: IoFault },
    /// Path::flatten(tol) and Path::contains_point(tol, x, y) (C07 only)
    PathQuery { path: PathSpec, tol: F, x: F, y: F },
}

impl Op {
    pub fn name(&self) -> &'static str {
        match self {
            Op::SetTransform(_) => "set_transform",
            Op::PushClipRect(_) => "push_clip_rect",
            Op::PushClip(_) => "push_clip",
            Op::PopClip => "pop_clip",
            Op::PushLayer { .. } => "push_layer",
            Op::PopLayer => "pop_layer",
            Op::Fill { .. } => "fill",
            Op::FillRect { .. } => "fill_rect",
            Op::Stroke { .. } => "stroke",
            Op::Clear { .. } => "clear",
            Op::Mask { .. } => "mask",
            Op::DrawImageAt { .. } => "draw_image_at",
            Op::DrawImageSized { .. } => "draw_image_with_size_at",
            Op::CopySurface { .. } => "copy_surface",
            Op::BlendSurface { .. } => "blend_surface",
            Op::BlendSurfaceAlpha { .. } => "blend_surface_with_alpha",
            Op::Poke32 { .. } => "poke32",
            Op::Poke8 { .. } => "poke8",
            Op::ReadViews => "read_views",
            Op::Restart(_) => "restart",
            Op::Resync => "resync",
            Op::WritePng { .. } => "write_png",
            Op::PathQuery { .. } => "path_query",
        }
    }

    pub fn kind_index(&self) -> u8 {
        match self {
            Op::SetTransform(_) => 0,
            Op::PushClipRect(_) => 1,
            Op::PushClip(_) => 2,
            Op::PopClip => 3,
            Op::PushLayer { .. } => 4,
            Op::PopLayer => 5,
            Op::Fill { .. } => 6,
            Op::FillRect { .. } => 7,
            Op::Stroke { .. } => 8,
            Op::Clear { .. } => 9,
            Op::Mask { .. } => 10,
            Op::DrawImageAt { .. } => 11,
            Op::DrawImageSized { .. } => 12,
            Op::CopySurface { .. } => 13,
            Op::BlendSurface { .. } => 14,
            Op::BlendSurfaceAlpha { .. } => 15,
            Op::Poke32 { .. } => 16,
            Op::Poke8 { .. } => 17,
            Op::ReadViews => 18,
            Op::Restart(_) => 19,
            Op::Resync => 20,
            Op::WritePng { .. } => 21,
            Op::PathQuery { .. } => 22,
        }
    }

    /// the draw calls of C02's list (pop_layer included)
    pub fn is_draw(&self) -> bool {
        matches!(
            self,
            Op::Fill { .. }
                | Op::FillRect { .. }
                | Op::Stroke { .. }
                | Op::Clear { .. }
                | Op::Mask { .. }
                | Op::DrawImageAt { .. }
                | Op::DrawImageSized { .. }
                | Op::PopLayer
        )
    }

    pub fn blend(&self) -> Option<u8> {
        match self {
            Op::Fill { opts, .. }
            | Op::FillRect { opts, .. }
            | Op::Stroke { opts, .. }
            | Op::DrawImageAt { opts, .. }
            | Op::DrawImageSized { opts, .. } => Some(opts.blend),
            Op::PushLayer { blend, .. } | Op::BlendSurface { blend, .. } => Some(*blend),
            _ => None,
        }
    }
}

#[derive(Clone, Debug, PartialEq, Serialize, Deserialize)]
pub struct Step {
    /// which surface of the world the call is made on
    pub surf: usize,
    pub op: Op,
    /// the generator's claim that this call must not change any pixel (NOP-DRAW perturbation):
    /// 0 no claim, 1 intrinsically a no-op, 2 because the CTM is singular, 3 because the clip is
    /// empty, 4 a no-op as long as the CTM is the identity (off-surface geometry)
    #[serde(default)]
    pub nop: u8,
}

impl Step {
    pub fn new(surf: usize, op: Op) -> Step {
        Step { surf, op, nop: 0 }
    }
    pub fn is_nop(&self) -> bool {
        self.nop != 0
    }
}

#[derive(Clone, Debug, PartialEq, Serialize, Deserialize)]
pub struct SurfSpec {
    pub w: i32,
    pub h: i32,
    pub pixels: Vec<u32>,
}

#[derive(Clone, Debug, PartialEq, Serialize, Deserialize)]
pub struct History {
    pub surfaces: Vec<SurfSpec>,
    pub steps: Vec<Step>,
    /// buggify mask applied to the primary execution
    pub buggify: u32,
    /// profile specific twin options (bit mask)
    #[serde(default)]
    pub variant: u32,
    pub tick_budget: u64,
    /// profile variant chosen by the swarm configuration (free text, informational)
    pub swarm: String,
}

impl History {
    /// 64-bit fingerprint of the *shape* of the history (op kinds, surfaces, blend modes, nop flags)
    pub fn shape_hash(&self) -> u64 {
        let mut h: u64 = 0xcbf29ce484222325;
        let mut eat = |b: u8| {
            h ^= b as u64;
            h = h.wrapping_mul(0x100000001b3);
        };
        for s in &self.surfaces {
            eat(s.w as u8);
            eat(s.h as u8);
        }
        for s in &self.steps {
            eat(s.surf as u8);
            eat(s.op.kind_index());
            eat(s.op.blend().unwrap_or(255));
            eat(s.nop);
        }
        h
    }

    /// one-line human summary used in evidence samples
    pub fn summary(&self) -> String {
        let surf: Vec<String> = self.surfaces.iter().map(|s| format!("{}x{}", s.w, s.h)).collect();
        let ops: Vec<String> = self
            .steps
            .iter()
            .map(|s| {
                let mut t = format!("S{}.{}", s.surf, s.op.name());
                if let Some(b) = s.op.blend() {
                    t.push_str(&format!("[{}]", BLEND_NAMES[b as usize % 28]));
                }
                if s.nop != 0 {
                    t.push_str("(nop)");
                }
                t
            })
            .collect();
        format!("surfaces {} buggify {:#x}: {}", surf.join(","), self.buggify, ops.join(" "))
    }
}

/// Replay file contents
#[derive(Clone, Debug, Serialize, Deserialize)]
pub struct Replay {
    pub format: String,
    pub property: String,
    pub oracle: String,
    pub batch_seed: u64,
    pub run_index: u64,
    pub run_seed: u64,
    pub detail: String,
    pub history: History,
}

pub fn replay_to_text(r: &Replay) -> String {
    // pretty but one step per line
    let mut out = String::new();
    out.push_str("{\n");
    out.push_str(&format!(" \"format\": {},\n", serde_json::to_string(&r.format).unwrap()));
    out.push_str(&format!(" \"property\": {},\n", serde_json::to_string(&r.property).unwrap()));
    out.push_str(&format!(" \"oracle\": {},\n", serde_json::to_string(&r.oracle).unwrap()));
    out.push_str(&format!(" \"batch_seed\": {},\n \"run_index\": {},\n \"run_seed\": {},\n", r.batch_seed, r.run_index, r.run_seed));
    out.push_str(&format!(" \"detail\": {},\n", serde_json::to_string(&r.detail).unwrap()));
    out.push_str(" \"history\": {\n");
    out.push_str(&format!("  \"buggify\": {},\n  \"variant\": {},\n  \"tick_budget\": {},\n  \"swarm\": {},\n", r.history.buggify, r.history.variant, r.history.tick_budget, serde_json::to_string(&r.history.swarm).unwrap()));
    out.push_str("  \"surfaces\": [\n");
    for (i, s) in r.history.surfaces.iter().enumerate() {
        out.push_str(&format!("   {}{}\n", serde_json::to_string(s).unwrap(), if i + 1 < r.history.surfaces.len() { "," } else { "" }));
    }
    out.push_str("  ],\n  \"steps\": [\n");
    for (i, s) in r.history.steps.iter().enumerate() {
        out.push_str(&format!("   {}{}\n", serde_json::to_string(s).unwrap(), if i + 1 < r.history.steps.len() { "," } else { "" }));
    }
    out.push_str("  ]\n }\n}\n");
    out
}
