//! Seeded generation of histories. Everything is derived from the one `Rng`.

use crate::mk;
use crate::ops::*;
use crate::rng::Rng;

pub const SIZES: [i32; 15] = [0, 1, 2, 3, 4, 5, 7, 8, 9, 15, 16, 17, 31, 33, 64];

pub fn valid_pixel(rng: &mut Rng) -> u32 {
    let a = match rng.below(6) {
        0 => 0u32,
        1 | 2 => 255,
        _ => rng.below(256) as u32,
    };
    let ch = |rng: &mut Rng| -> u32 {
        match rng.below(5) {
            0 => a,
            1 => 0,
            _ => rng.below(a as u64 + 1) as u32,
        }
    };
    let r = ch(rng);
    let g = ch(rng);
    let b = ch(rng);
    (a << 24) | (r << 16) | (g << 8) | b
}

pub fn busy_pixels(rng: &mut Rng, n: usize) -> Vec<u32> {
    // never all-zero: on a transparent target "wrote nothing" and "wrote transparent" look alike
    let mode = rng.below(8);
    let constant = valid_pixel(rng) | 0x01000000;
    (0..n)
        .map(|i| match mode {
            0 => constant,
            1 => {
                if i % 2 == 0 {
                    constant
                } else {
                    valid_pixel(rng)
                }
            }
            _ => valid_pixel(rng),
        })
        .collect()
}

/// set by the Miri deepening, where every pixel costs a thousand times more
pub static NO_LARGE_SURFACES: std::sync::atomic::AtomicBool = std::sync::atomic::AtomicBool::new(false);

pub fn gen_surface(rng: &mut Rng, max: i32, allow_zero: bool, transparent_ok: bool) -> SurfSpec {
    let pick = |rng: &mut Rng| loop {
        // biased to small
        let s = if rng.chance(2, 3) { SIZES[rng.usize(9)] } else { SIZES[rng.usize(SIZES.len())] };
        if s <= max && (allow_zero || s > 0) {
            return s;
        }
    };
    if max >= 16 && !NO_LARGE_SURFACES.load(std::sync::atomic::Ordering::Relaxed) {
        // Thresholds in the library (a scratch row, a chunk size, a narrower integer type) show
        // only beyond some size: now and then a surface of more than 2^14, 2^16 or 2^20 pixels,
        // or one more than 8192 pixels long. Rare, because every call on such a surface costs
        // as much as thousands of ordinary runs.
        let big = match rng.below(48000) {
            0 => Some(rng.pick(&[(1100, 1000), (4200, 260), (1040, 1040)])),
            1..=15 => Some((rng.range(257, 330), rng.range(257, 300))),
            16..=95 => Some((rng.range(130, 220), rng.range(127, 160))),
            96..=107 => {
                let long = rng.range(8200, 10500);
                let short = rng.range(1, 3);
                Some(if rng.chance(1, 2) { (long, short) } else { (short, long) })
            }
            _ => None,
        };
        if let Some((w, h)) = big {
            let n = (w * h) as usize;
            let pixels = if transparent_ok && rng.chance(1, 6) { vec![0; n] } else { busy_pixels(rng, n) };
            return SurfSpec { w, h, pixels };
        }
    }
    if max >= 16 && rng.chance(1, 200) {
        // now and then a surface longer than 1024 (sometimes 2048) pixels in one direction
        // (chunked loops, fixed-size scratch rows, u16 coordinates, many sample rows)
        let long = if rng.chance(1, 3) { rng.range(2049, 2600) } else { rng.range(1025, 1400) };
        let short = rng.range(1, 2);
        let (w, h) = if rng.chance(3, 4) { (long, short) } else { (short, long) };
        let n = (w * h) as usize;
        let pixels = if transparent_ok && rng.chance(1, 6) { vec![0; n] } else { busy_pixels(rng, n) };
        return SurfSpec { w, h, pixels };
    }
    let (w, h) = match rng.below(10) {
        0 if max >= 33 => (rng.range(34, 70), rng.range(1, 3)), // wide and flat: SIMD body and tail
        1 => {
            let s = pick(rng);
            (s, s)
        }
        _ => (pick(rng), pick(rng)),
    };
    let n = (w * h) as usize;
    let pixels = if transparent_ok && rng.chance(1, 6) { vec![0; n] } else { busy_pixels(rng, n) };
    SurfSpec { w, h, pixels }
}

/// thorough tier only: a long and flat (or tall and thin) surface, so that long rows, many
/// sample rows and the u16 casts of the shaders see more than a few dozen pixels
pub fn gen_surface_big(rng: &mut Rng, transparent_ok: bool) -> SurfSpec {
    let long = rng.range(90, 300);
    let short = rng.range(1, 4);
    let (w, h) = if rng.chance(2, 3) { (long, short) } else { (short, long) };
    let n = (w * h) as usize;
    let pixels = if transparent_ok && rng.chance(1, 6) { vec![0; n] } else { busy_pixels(rng, n) };
    SurfSpec { w, h, pixels }
}

// ---------------------------------------------------------------------------
// geometry

pub fn coord(rng: &mut Rng, extent: i32, quarter: bool) -> f32 {
    let e = extent.max(1) as f32;
    let (lo, hi) = match rng.below(10) {
        0 => (-2.0 * e - 4., 3.0 * e + 4.),
        1 | 2 => (-0.5 * e - 2., 1.5 * e + 2.),
        _ => (-1., e + 1.),
    };
    // stay inside the library's working coordinate range also on the very long surfaces
    let v = rng.f32_in(lo, hi).max(-3500.).min(3500.);
    if quarter {
        (v * 4.).round() / 4.
    } else if rng.chance(1, 4) {
        v.round()
    } else {
        v
    }
}

#[derive(Clone, Copy)]
pub struct PathCfg {
    pub curves: bool,
    pub allow_no_moveto: bool,
    pub max_subpaths: u32,
    pub max_verts: u32,
}

pub const PATH_ANY: PathCfg = PathCfg { curves: true, allow_no_moveto: true, max_subpaths: 3, max_verts: 6 };
pub const PATH_POLY: PathCfg = PathCfg { curves: false, allow_no_moveto: true, max_subpaths: 3, max_verts: 6 };

/// Many subpaths in one path: a grating of narrow upright bars crossed by a shallow wedge (an
/// edge that overtakes dozens of others within one sample row), or a stack of more than a
/// hundred nested contours of one orientation (winding numbers beyond a byte).
pub fn gen_crowded_path(rng: &mut Rng, w: i32, h: i32) -> PathSpec {
    let mut segs = Vec::new();
    let (wf, hf) = (w.max(2) as f32, h.max(2) as f32);
    if rng.chance(2, 3) {
        let n = rng.range(20, 90);
        let pitch = (wf / n as f32).max(0.5);
        let (y0, y1) = (rng.f32_in(-1., hf * 0.3), rng.f32_in(hf * 0.6, hf + 1.));
        for i in 0..n {
            let x = i as f32 * pitch + rng.f32_in(0., pitch * 0.2);
            segs.push(Seg::Rect(F(x), F(y0), F(pitch * 0.5), F(y1 - y0)));
        }
        // the wedge: from the right end to the left end, rising or falling by a pixel or less
        let y = rng.f32_in(y0.max(0.), y1.min(hf));
        let dy = rng.f32_in(0.1, 1.2);
        segs.push(Seg::M(F(n as f32 * pitch + 1.), F(y)));
        segs.push(Seg::L(F(-1.), F(y + dy)));
        segs.push(Seg::L(F(-1.), F(y + dy + rng.f32_in(0.3, 2.))));
        segs.push(Seg::Z);
    } else {
        let n = rng.range(100, 170);
        let (x, y) = (rng.f32_in(-1., wf * 0.4), rng.f32_in(-1., hf * 0.4));
        let (rw, rh) = (rng.f32_in(2., wf), rng.f32_in(2., hf));
        let shrink = if rng.chance(1, 2) { 0. } else { 0.01 };
        for i in 0..n {
            let d = i as f32 * shrink;
            segs.push(Seg::Rect(F(x + d), F(y + d), F(rw - 2. * d), F(rh - 2. * d)));
        }
    }
    PathSpec::new(rng.chance(1, 3), segs)
}

pub fn gen_path(rng: &mut Rng, w: i32, h: i32, cfg: PathCfg) -> PathSpec {
    if cfg.max_subpaths >= 3 && rng.chance(1, 150) {
        return gen_crowded_path(rng, w, h);
    }
    let quarter = rng.chance(1, 2);
    let mut segs = Vec::new();
    let shape = rng.below(12);
    if shape == 0 {
        // a rect through the helper
        let x = coord(rng, w, quarter);
        let y = coord(rng, h, quarter);
        let x2 = coord(rng, w, quarter);
        let y2 = coord(rng, h, quarter);
        segs.push(Seg::Rect(F(x), F(y), F(x2 - x), F(y2 - y)));
    } else if shape == 1 && cfg.curves {
        let x = coord(rng, w, quarter);
        let y = coord(rng, h, quarter);
        let r = rng.f32_in(0., (w.max(h) as f32) * 0.8 + 1.);
        let a0 = rng.f32_in(-7., 7.);
        let sw = rng.f32_in(-8., 8.);
        if rng.chance(1, 2) {
            segs.push(Seg::M(F(x), F(y)));
        }
        segs.push(Seg::Arc(F(x), F(y), F(r), F(a0), F(sw)));
        if rng.chance(1, 2) {
            segs.push(Seg::Z);
        }
    } else {
        let nsub = 1 + rng.below(cfg.max_subpaths as u64) as u32;
        if cfg.allow_no_moveto && rng.chance(1, 14) {
            // a path may begin with anything, Close included
            segs.push(Seg::Z);
        }
        for si in 0..nsub {
            let nv = 2 + rng.below((cfg.max_verts - 1) as u64) as u32;
            let skip_move = cfg.allow_no_moveto && rng.chance(1, 10) && (si == 0 || rng.chance(1, 2));
            for vi in 0..nv {
                let x = coord(rng, w, quarter);
                let y = coord(rng, h, quarter);
                if vi == 0 && !skip_move {
                    segs.push(Seg::M(F(x), F(y)));
                    continue;
                }
                let kind = if cfg.curves { rng.below(10) } else { 0 };
                match kind {
                    7 | 8 => {
                        let cx = coord(rng, w, quarter);
                        let cy = coord(rng, h, quarter);
                        segs.push(Seg::Q(F(cx), F(cy), F(x), F(y)));
                    }
                    9 => {
                        let c1x = coord(rng, w, quarter);
                        let c1y = coord(rng, h, quarter);
                        let c2x = coord(rng, w, quarter);
                        let c2y = coord(rng, h, quarter);
                        segs.push(Seg::C(F(c1x), F(c1y), F(c2x), F(c2y), F(x), F(y)));
                    }
                    _ => segs.push(Seg::L(F(x), F(y))),
                }
            }
            if rng.chance(1, 2) {
                segs.push(Seg::Z);
                if rng.chance(1, 6) {
                    // a drawing command directly after close continues from the subpath start
                    let x = coord(rng, w, quarter);
                    let y = coord(rng, h, quarter);
                    segs.push(Seg::L(F(x), F(y)));
                }
            }
        }
    }
    PathSpec::new(rng.chance(1, 3), segs)
}

/// A shape that deliberately covers only part of its bounding box / of the surface
pub fn gen_sparse_path(rng: &mut Rng, w: i32, h: i32) -> PathSpec {
    let q = true;
    let segs = match rng.below(5) {
        4 => {
            // two polygons side by side with a gap of at least two pixels between them
            let mid = (w / 2) as f32;
            let mut segs = Vec::new();
            for side in 0..2 {
                let n = 3 + rng.usize(2);
                for v in 0..n {
                    let x = if side == 0 { rng.f32_in(-2., mid - 1.) } else { rng.f32_in(mid + 1., w as f32 + 2.) };
                    // plenty of nearly horizontal edges
                    let y = if rng.chance(1, 2) { coord(rng, h, false) } else { (rng.range(0, h.max(1)) as f32) + rng.f32_in(0., 0.5) };
                    segs.push(if v == 0 { Seg::M(F(x), F(y)) } else { Seg::L(F(x), F(y)) });
                }
                if rng.chance(1, 2) {
                    segs.push(Seg::Z);
                }
            }
            segs
        }
        0 => {
            // triangle
            vec![
                Seg::M(F(coord(rng, w, q)), F(coord(rng, h, q))),
                Seg::L(F(coord(rng, w, q)), F(coord(rng, h, q))),
                Seg::L(F(coord(rng, w, q)), F(coord(rng, h, q))),
                Seg::Z,
            ]
        }
        1 => {
            // narrow rect
            let x = coord(rng, w, q);
            let y = coord(rng, h, q);
            if rng.chance(1, 2) {
                vec![Seg::Rect(F(x), F(y), F(rng.f32_in(0.25, 1.5)), F(rng.f32_in(1., h as f32 + 2.)))]
            } else {
                vec![Seg::Rect(F(x), F(y), F(rng.f32_in(1., w as f32 + 2.)), F(rng.f32_in(0.25, 1.5)))]
            }
        }
        2 => {
            // two separate small boxes: bounding box mostly empty
            let x = coord(rng, w, q);
            let y = coord(rng, h, q);
            let x2 = coord(rng, w, q);
            let y2 = coord(rng, h, q);
            vec![Seg::Rect(F(x), F(y), F(1.25), F(1.)), Seg::Rect(F(x2), F(y2), F(1.), F(1.5))]
        }
        _ => return gen_path(rng, w, h, PATH_ANY),
    };
    PathSpec::new(rng.chance(1, 3), segs)
}

// ---------------------------------------------------------------------------
// transforms

pub fn gen_transform(rng: &mut Rng, w: i32, h: i32, allow_singular: bool) -> Mat {
    let e = (w.max(h).max(1)) as f32;
    let t = match rng.below(if allow_singular { 12 } else { 11 }) {
        10 => {
            // a pure shear along one axis, often with a whole-pixel translation: the matrices
            // that are closest to "integer translation" without being one
            let k = rng.pick(&[0.5f32, -0.5, 0.25, 1., -1., 2.]) * if rng.chance(1, 3) { rng.f32_in(0.1, 1.) } else { 1. };
            let (tx, ty) = if rng.chance(2, 3) { (rng.range(-4, 4) as f32, rng.range(-4, 4) as f32) } else { (rng.f32_in(-4., 4.), rng.f32_in(-4., 4.)) };
            if rng.chance(1, 2) {
                raqote::Transform::new(1., 0., k, 1., tx, ty)
            } else {
                raqote::Transform::new(1., k, 0., 1., tx, ty)
            }
        }
        0 => raqote::Transform::identity(),
        1 => match rng.below(8) {
            // invertible, but with a determinant far from 1 (device-space calls such as mask()
            // and clear() still have to work; user-space geometry collapses or explodes)
            0 => {
                let s = (2.0f32).powi(-rng.range(10, 14));
                raqote::Transform::scale(s, s)
            }
            // within rounding noise of the identity / of a whole-pixel translation, but not equal
            1 => raqote::Transform::scale(1. + rng.f32_in(-1e-4, 1e-4), 1. + rng.f32_in(-1e-4, 1e-4))
                .then_translate(euclid::vec2(rng.range(-3, 3) as f32 + rng.f32_in(-1e-4, 1e-4), rng.range(-3, 3) as f32)),
            2 => raqote::Transform::rotation(euclid::Angle::radians(rng.f32_in(-1e-4, 1e-4))),
            _ => raqote::Transform::identity(),
        },
        2 => raqote::Transform::translation(rng.range(-(e as i32), e as i32) as f32, rng.range(-(e as i32), e as i32) as f32),
        3 => raqote::Transform::translation(rng.f32_in(-e, e), rng.f32_in(-e, e)),
        4 => raqote::Transform::scale(rng.f32_in(0.25, 3.), rng.f32_in(0.25, 3.)),
        5 => {
            // similarity transforms: a rotation (now and then an exact quarter turn or the
            // exchange of the axes), sometimes with a uniform scale, then a translation
            let r = match rng.below(6) {
                0 => raqote::Transform::new(0., 1., -1., 0., 0., 0.),
                1 => raqote::Transform::new(0., -1., 1., 0., 0., 0.),
                2 => raqote::Transform::new(0., 1., 1., 0., 0., 0.),
                _ => raqote::Transform::rotation(euclid::Angle::radians(rng.f32_in(-3.2, 3.2))),
            };
            let r = if rng.chance(1, 3) {
                let s = rng.pick(&[0.5f32, 2., 1.5, 0.75]);
                r.then_scale(s, s)
            } else {
                r
            };
            r.then_translate(euclid::vec2(rng.f32_in(0., e), rng.f32_in(0., e)))
        }
        6 => raqote::Transform::new(1., rng.f32_in(-1., 1.), rng.f32_in(-1., 1.), 1., 0., 0.),
        7 => {
            let t = raqote::Transform::scale(if rng.chance(1, 2) { -1. } else { 1. }, if rng.chance(1, 2) { -1. } else { 1. });
            // mirrored, with a whole-pixel translation half of the time
            if rng.chance(1, 2) {
                t.then_translate(euclid::vec2(rng.range(0, e as i32) as f32, rng.range(0, e as i32) as f32))
            } else {
                t.then_translate(euclid::vec2(rng.f32_in(0., e), rng.f32_in(0., e)))
            }
        }
        8 | 9 => {
            let t = raqote::Transform::new(
                rng.f32_in(-2., 2.),
                rng.f32_in(-2., 2.),
                rng.f32_in(-2., 2.),
                rng.f32_in(-2., 2.),
                rng.f32_in(-e, e),
                rng.f32_in(-e, e),
            );
            // keep it comfortably invertible; singular ones are generated on purpose below
            if t.determinant().abs() < 0.05 {
                raqote::Transform::identity()
            } else {
                t
            }
        }
        _ => gen_singular(rng),
    };
    mk::unmat(&t)
}

pub fn gen_singular(rng: &mut Rng) -> raqote::Transform {
    match rng.below(4) {
        0 => raqote::Transform::scale(0., 0.),
        1 => raqote::Transform::scale(rng.f32_in(0.5, 2.), 0.),
        2 => raqote::Transform::scale(0., rng.f32_in(0.5, 2.)),
        _ => {
            let a = rng.f32_in(-2., 2.);
            let b = rng.f32_in(-2., 2.);
            // rank one: second row is a multiple of the first. Use a power of two multiple so
            // that the determinant is exactly zero in f32.
            raqote::Transform::new(a, b, 2. * a, 2. * b, rng.f32_in(-3., 3.), rng.f32_in(-3., 3.))
        }
    }
}

pub fn is_identity(m: &Mat) -> bool {
    mk::mat(m) == raqote::Transform::identity()
}

pub fn invertible(m: &Mat) -> bool {
    mk::mat(m).inverse().is_some()
}

// ---------------------------------------------------------------------------
// sources

pub fn gen_stops(rng: &mut Rng) -> Vec<Stop> {
    let n = 1 + rng.usize(5);
    let mut pos: Vec<f32> = (0..n).map(|_| if rng.chance(1, 5) { rng.pick(&[0.0f32, 1.0, 0.5]) } else { rng.unit() }).collect();
    pos.sort_by(|a, b| a.partial_cmp(b).unwrap());
    pos.iter()
        .map(|p| Stop {
            pos: F(*p),
            argb: [
                match rng.below(4) {
                    0 => 255,
                    1 => 0,
                    _ => rng.below(256) as u8,
                },
                rng.below(256) as u8,
                rng.below(256) as u8,
                rng.below(256) as u8,
            ],
        })
        .collect()
}

pub fn gen_image(rng: &mut Rng) -> ImgSpec {
    let w = 1 + rng.below(5) as i32;
    let h = 1 + rng.below(4) as i32;
    let data = (0..(w * h)).map(|_| valid_pixel(rng)).collect();
    ImgSpec { w, h, data }
}

pub fn gen_solid(rng: &mut Rng) -> SrcKind {
    let p = valid_pixel(rng);
    let (a, r, g, b) = ((p >> 24) as u8, (p >> 16) as u8, (p >> 8) as u8, p as u8);
    match rng.below(6) {
        0 => SrcKind::SolidUnpremul { a, r: rng.below(256) as u8, g: rng.below(256) as u8, b: rng.below(256) as u8 },
        1 => SrcKind::SolidColor { a, r: rng.below(256) as u8, g: rng.below(256) as u8, b: rng.below(256) as u8 },
        _ => SrcKind::Solid { a, r, g, b },
    }
}

/// weights: [solid, image, linear, radial, two-circle, sweep]
pub fn gen_source(rng: &mut Rng, w: i32, h: i32, weights: &[u32; 6]) -> SrcSpec {
    let e = w.max(h).max(1) as f32;
    let p2 = |rng: &mut Rng| [F(rng.f32_in(-0.5 * e, 1.5 * e)), F(rng.f32_in(-0.5 * e, 1.5 * e))];
    let kind = match rng.weighted(weights) {
        0 => gen_solid(rng),
        1 => {
            let img = gen_image(rng);
            let xf = match rng.below(7) {
                6 => {
                    let k = rng.pick(&[0.5f32, -0.5, 0.25, 1., -1.]);
                    let (tx, ty) = (rng.range(-3, 3) as f32, rng.range(-3, 3) as f32);
                    mk::unmat(&if rng.chance(1, 2) { raqote::Transform::new(1., 0., k, 1., tx, ty) } else { raqote::Transform::new(1., k, 0., 1., tx, ty) })
                }
                0 => mat_identity(),
                1 => mk::unmat(&raqote::Transform::translation(rng.range(-6, 6) as f32, rng.range(-6, 6) as f32)),
                2 => mk::unmat(&raqote::Transform::translation(rng.f32_in(-6., 6.), rng.f32_in(-6., 6.))),
                3 => mk::unmat(&raqote::Transform::scale(rng.f32_in(0.2, 3.), rng.f32_in(0.2, 3.))),
                _ => {
                    let t = raqote::Transform::new(
                        rng.f32_in(-2., 2.),
                        rng.f32_in(-2., 2.),
                        rng.f32_in(-2., 2.),
                        rng.f32_in(-2., 2.),
                        rng.f32_in(-6., 6.),
                        rng.f32_in(-6., 6.),
                    );
                    if t.determinant().abs() < 0.05 {
                        mat_identity()
                    } else {
                        mk::unmat(&t)
                    }
                }
            };
            SrcKind::Image { img, repeat: rng.chance(1, 2), bilinear: rng.chance(1, 2), xf }
        }
        2 => {
            let start = p2(rng);
            let end = if rng.chance(1, 12) { start } else { p2(rng) };
            SrcKind::Linear { stops: gen_stops(rng), spread: rng.below(3) as u8, start, end }
        }
        3 => SrcKind::Radial { stops: gen_stops(rng), spread: rng.below(3) as u8, center: p2(rng), radius: F(rng.f32_in(0.5, 1.5 * e)) },
        4 => {
            let c2 = p2(rng);
            let r2 = rng.f32_in(1., 1.5 * e);
            let r1 = rng.f32_in(0.1, r2 * 0.6);
            let d = (r2 - r1) * 0.6;
            let r1 = if rng.chance(1, 14) { r2 } else { r1 };
            let c1 = if rng.chance(1, 14) {
                c2
            } else if rng.chance(1, 3) {
                // circles that are not nested: outside of the cone the gradient is transparent
                p2(rng)
            } else {
                [F(c2[0].0 + rng.f32_in(-d, d) * 0.7), F(c2[1].0 + rng.f32_in(-d, d) * 0.7)]
            };
            SrcKind::TwoCircle { stops: gen_stops(rng), spread: rng.below(3) as u8, c1, r1: F(r1), c2, r2: F(r2) }
        }
        _ => {
            let a0 = rng.f32_in(0., 300.);
            // degenerate angle ranges now and then (empty, reversed, more than a turn)
            let a1 = match rng.below(12) {
                0 => a0,
                1 => a0 - rng.f32_in(10., 200.),
                2 => a0 + rng.f32_in(360., 900.),
                _ => a0 + rng.f32_in(10., 360.),
            };
            SrcKind::Sweep { stops: gen_stops(rng), spread: rng.below(3) as u8, center: p2(rng), a0: F(a0), a1: F(a1) }
        }
    };
    // gradients "built directly" with a transform of their own now and then
    let user_xf = if !matches!(kind, SrcKind::Solid { .. } | SrcKind::SolidUnpremul { .. } | SrcKind::SolidColor { .. } | SrcKind::Image { .. }) && rng.chance(1, 3) {
        let t = match rng.below(3) {
            0 => raqote::Transform::translation(rng.f32_in(-0.5 * e, 0.5 * e), rng.f32_in(-0.5 * e, 0.5 * e)),
            1 => raqote::Transform::scale(rng.f32_in(0.5, 2.), rng.f32_in(0.5, 2.)),
            _ => raqote::Transform::rotation(euclid::Angle::radians(rng.f32_in(-3., 3.))).then_translate(euclid::vec2(rng.f32_in(-3., 3.), rng.f32_in(-3., 3.))),
        };
        Some(mk::unmat(&t))
    } else {
        None
    };
    SrcSpec { kind, pre: None, user_xf }
}

pub const SRC_ALL: [u32; 6] = [6, 3, 1, 1, 1, 1];
pub const SRC_SOLID: [u32; 6] = [1, 0, 0, 0, 0, 0];

// ---------------------------------------------------------------------------
// options

#[derive(Clone, Copy, PartialEq)]
pub enum BlendProfile {
    /// mostly SrcOver
    Common,
    /// weighted towards the modes that would erase the destination
    Destructive,
    /// uniform over the 24 separable modes with a small weight on the non-separable ones
    Uniform,
}

pub fn gen_blend(rng: &mut Rng, p: BlendProfile) -> u8 {
    // Clear, Src, SrcIn, DstIn, SrcOut, DstAtop
    const DESTRUCTIVE: [u8; 6] = [2, 1, 5, 6, 7, 10];
    match p {
        BlendProfile::Common => {
            if rng.chance(3, 5) {
                BLEND_SRC_OVER
            } else {
                gen_blend(rng, BlendProfile::Uniform)
            }
        }
        BlendProfile::Destructive => {
            if rng.chance(1, 2) {
                rng.pick(&DESTRUCTIVE)
            } else {
                gen_blend(rng, BlendProfile::Uniform)
            }
        }
        BlendProfile::Uniform => {
            // Hue/Saturation/Color/Luminosity overflow-panic inside sw-composite with overflow
            // checks on (known finding F11): they abandon the run, so give them little weight
            if rng.chance(1, 60) {
                24 + rng.below(4) as u8
            } else {
                rng.below(24) as u8
            }
        }
    }
}

pub fn gen_alpha(rng: &mut Rng) -> f32 {
    match rng.below(6) {
        0 => 0.,
        1 | 2 | 3 => 1.,
        _ => rng.unit(),
    }
}

pub fn gen_opts(rng: &mut Rng, p: BlendProfile) -> Opts {
    Opts { blend: gen_blend(rng, p), alpha: F(gen_alpha(rng)), aa: !rng.chance(1, 5) }
}

pub fn gen_stroke_style(rng: &mut Rng, e: i32) -> StrokeSpec {
    let width = match rng.below(8) {
        0 => rng.f32_in(0.05, 0.9),
        1 => 1.,
        _ => rng.f32_in(0.5, (e as f32 * 0.5).max(1.5)),
    };
    let dash_array = if rng.chance(1, 3) {
        let n = 1 + rng.usize(4);
        // dashes not shorter than a hundredth of the surface: a dashed outline of tens of
        // thousands of dashes is legitimate but takes the rasteriser (quadratic edge insertion)
        // the better part of a minute
        let shortest = (e as f32 / 100.).max(0.3);
        (0..n).map(|_| F(if rng.chance(1, 8) { 0. } else { rng.f32_in(shortest, e as f32 + 1.) })).collect()
    } else {
        Vec::new()
    };
    StrokeSpec {
        width: F(width),
        cap: rng.below(3) as u8,
        join: rng.below(3) as u8,
        miter_limit: F(match rng.below(4) {
            0 => 0.,
            1 => 1.,
            2 => 10.,
            _ => rng.f32_in(0., 6.),
        }),
        dash_array,
        dash_offset: F(if rng.chance(1, 2) { 0. } else { rng.f32_in(-3. * e as f32, 3. * e as f32) }),
    }
}

pub fn gen_clip_rect(rng: &mut Rng, w: i32, h: i32) -> [i32; 4] {
    if rng.chance(1, 12) {
        // coordinates far beyond the surface: "everything" rectangles, sentinels, list items far
        // off screen (beyond what 16 bits hold)
        let far = |rng: &mut Rng| rng.pick(&[40000, 100000, 32768, 65536, i32::MAX / 2, 1 << 24]);
        return match rng.below(5) {
            0 => [-far(rng), -far(rng), far(rng), far(rng)],
            1 => [0, 0, far(rng), far(rng)],
            2 => [rng.range(0, w), far(rng), rng.range(0, w) + far(rng) / 2, far(rng) + 100],
            3 => [-far(rng), rng.range(0, h.max(1)), rng.range(1, w.max(2)), far(rng)],
            _ => [far(rng), 0, far(rng) + 50, h],
        };
    }
    match rng.below(10) {
        0 => [0, 0, w, h],
        1 => [-rng.range(0, 20), -rng.range(0, 20), w + rng.range(0, 20), h + rng.range(0, 20)],
        2 => {
            // empty
            let x = rng.range(-2, w + 2);
            let y = rng.range(-2, h + 2);
            [x, y, x, rng.range(y, h + 2)]
        }
        3 => {
            // inverted
            let x = rng.range(0, w + 1);
            let y = rng.range(0, h + 1);
            [x, y, x - rng.range(1, 5), y - rng.range(0, 5)]
        }
        4 => {
            // wholly off surface
            match rng.below(4) {
                0 => [-10, 0, -2, h],
                1 => [w + 1, 0, w + 9, h],
                2 => [0, -9, w, -1],
                _ => [0, h, w, h + 5],
            }
        }
        _ => {
            let x1 = rng.range(-2, w);
            let y1 = rng.range(-2, h);
            [x1, y1, rng.range(x1, w + 2), rng.range(y1, h + 2)]
        }
    }
}

pub fn gen_mask(rng: &mut Rng, w: i32, h: i32) -> (i32, i32, i32, i32, Vec<u8>) {
    let mw = 1 + rng.below((w.max(1) as u64 + 2).min(9)) as i32;
    let mh = 1 + rng.below((h.max(1) as u64 + 2).min(9)) as i32;
    let x = rng.range(-mw - 1, w + 1);
    let y = rng.range(-mh - 1, h + 1);
    let mode = rng.below(4);
    let data = (0..(mw * mh))
        .map(|_| match mode {
            0 => 255u8,
            1 => rng.pick(&[0u8, 255, 255, 128]),
            _ => match rng.below(6) {
                0 => 0,
                1 => 255,
                _ => rng.below(256) as u8,
            },
        })
        .collect();
    (x, y, mw, mh, data)
}

// ---------------------------------------------------------------------------
// the state the generator tracks while it emits a history

pub struct Emit {
    pub surfaces: Vec<SurfSpec>,
    pub steps: Vec<Step>,
    pub shadows: Vec<mk::Shadow>,
    /// blend modes of the open layers of each surface, outermost first
    pub layer_blends: Vec<Vec<u8>>,
    /// extents of the open layers (clip rectangles in force at the push, on the surface)
    pub layer_extents: Vec<Vec<[i32; 4]>>,
}

impl Emit {
    pub fn new(surfaces: Vec<SurfSpec>) -> Emit {
        let shadows = surfaces.iter().map(|_| mk::Shadow::new()).collect();
        let layer_blends = surfaces.iter().map(|_| Vec::new()).collect();
        let layer_extents = surfaces.iter().map(|_| Vec::new()).collect();
        Emit { surfaces, steps: Vec::new(), shadows, layer_blends, layer_extents }
    }

    pub fn dims(&self, s: usize) -> (i32, i32) {
        (self.surfaces[s].w, self.surfaces[s].h)
    }

    pub fn push(&mut self, surf: usize, op: Op) {
        self.push_flag(surf, op, 0)
    }

    pub fn push_flag(&mut self, surf: usize, op: Op, nop: u8) {
        let sh = &mut self.shadows[surf];
        match &op {
            Op::SetTransform(m) => sh.ctm = *m,
            Op::PushClipRect(r) => sh.brackets.push((mk::Bracket::ClipRect(*r), sh.ctm)),
            Op::PushClip(p) => sh.brackets.push((mk::Bracket::ClipPath(p.clone()), sh.ctm)),
            Op::PushLayer { blend, plain, .. } => {
                let mut ext = [0, 0, self.surfaces[surf].w, self.surfaces[surf].h];
                for b in &sh.brackets {
                    if let mk::Bracket::ClipRect(r) = &b.0 {
                        ext = [ext[0].max(r[0]), ext[1].max(r[1]), ext[2].min(r[2]), ext[3].min(r[3])];
                    }
                }
                self.layer_extents[surf].push(ext);
                sh.brackets.push((mk::Bracket::Layer, sh.ctm));
                self.layer_blends[surf].push(if *plain { BLEND_SRC_OVER } else { *blend });
            }
            Op::PopClip => {
                if let Some(i) = sh.brackets.iter().rposition(|b| !matches!(b.0, mk::Bracket::Layer)) {
                    sh.brackets.remove(i);
                }
            }
            Op::PopLayer => {
                if let Some(i) = sh.brackets.iter().rposition(|b| matches!(b.0, mk::Bracket::Layer)) {
                    sh.brackets.remove(i);
                    self.layer_blends[surf].pop();
                    self.layer_extents[surf].pop();
                }
            }
            _ => {}
        }
        self.steps.push(Step { surf, op, nop });
    }

    /// closes the innermost open bracket of `surf`
    pub fn close_one(&mut self, surf: usize) {
        match self.shadows[surf].brackets.last() {
            Some((mk::Bracket::Layer, _)) => self.push(surf, Op::PopLayer),
            Some(_) => self.push(surf, Op::PopClip),
            None => {}
        }
    }

    /// Closes a layer whose enclosing bracket is a clip by popping that clip *first* (not LIFO)
    /// and the layer directly afterwards. Only for layer blend modes under which a transparent
    /// group pixel leaves the destination alone: there the statement of C06 ("composited once
    /// through the clip current at pop time") determines the result. Falls back to `close_one`.
    pub fn early_clip_pop(&mut self, surf: usize) {
        let b = &self.shadows[surf].brackets;
        let n = b.len();
        if n >= 2 && matches!(b[n - 1].0, mk::Bracket::Layer) && !matches!(b[n - 2].0, mk::Bracket::Layer) {
            // blend of the layer on top: find its push
            let mut depth = 0;
            let mut blend = None;
            for s in self.steps.iter().rev() {
                if s.surf != surf {
                    continue;
                }
                match &s.op {
                    Op::PopLayer => depth += 1,
                    Op::PushLayer { blend: bl, plain, .. } => {
                        if depth == 0 {
                            blend = Some(if *plain { BLEND_SRC_OVER } else { *bl });
                            break;
                        }
                        depth -= 1;
                    }
                    _ => {}
                }
            }
            let preserving = |m: u8| [0x00000000u32, 0xff102030, 0x80402010, 0x01000001].iter().all(|d| crate::kernel::blend_px(m, 0, *d) == *d);
            if let Some(bl) = blend {
                if bl < 24 && preserving(bl) {
                    self.push(surf, Op::PopClip);
                    self.push(surf, Op::PopLayer);
                    return;
                }
            }
        }
        self.close_one(surf);
    }

    /// A pop that does not respect the nesting of the two stacks: the most recent clip although
    /// layers were pushed after it (only if every such layer has a blend mode under which a
    /// transparent group pixel leaves the destination alone - then the statement of C06
    /// determines the outcome), or the innermost layer although clips were pushed inside it.
    pub fn nonlifo_pop(&mut self, surf: usize) {
        let b = &self.shadows[surf].brackets;
        let preserving = |m: u8| m < 24 && [0x00000000u32, 0xff102030, 0x80402010, 0x01000001].iter().all(|d| crate::kernel::blend_px(m, 0, *d) == *d);
        match b.last() {
            Some((mk::Bracket::Layer, _)) => {
                if let Some(ci) = b.iter().rposition(|x| !matches!(x.0, mk::Bracket::Layer)) {
                    let layers_above = b[ci + 1..].len();
                    let blends = &self.layer_blends[surf];
                    if blends.len() >= layers_above && blends[blends.len() - layers_above..].iter().all(|m| preserving(*m)) {
                        self.push(surf, Op::PopClip);
                        return;
                    }
                }
                self.close_one(surf);
            }
            Some(_) => {
                if b.iter().any(|x| matches!(x.0, mk::Bracket::Layer)) {
                    self.push(surf, Op::PopLayer);
                } else {
                    self.close_one(surf);
                }
            }
            None => {}
        }
    }

    /// Replaces the clip rectangle under which the innermost layer was pushed by another one
    /// while the layer stays open (pop_clip; push_clip_rect): the layer keeps its extent.
    /// Returns false if the state does not allow it.
    pub fn replace_clip_under_layer(&mut self, rng: &mut Rng, surf: usize) -> bool {
        let (w, h) = self.dims(surf);
        let b = &self.shadows[surf].brackets;
        let n = b.len();
        let preserving = |m: u8| m < 24 && [0x00000000u32, 0xff102030, 0x80402010, 0x01000001].iter().all(|d| crate::kernel::blend_px(m, 0, *d) == *d);
        if n < 2 || !matches!(b[n - 1].0, mk::Bracket::Layer) || !matches!(b[n - 2].0, mk::Bracket::ClipRect(_)) {
            return false;
        }
        match self.layer_blends[surf].last() {
            Some(m) if preserving(*m) => {}
            _ => return false,
        }
        let e = *self.layer_extents[surf].last().unwrap();
        let r = if e[2] > e[0] && e[3] > e[1] && rng.chance(2, 3) {
            // as large as the layer, somewhere else on the surface
            let (ew, eh) = (e[2] - e[0], e[3] - e[1]);
            let x = rng.range(0, (w - ew).max(0));
            let y = rng.range(0, (h - eh).max(0));
            [x, y, x + ew, y + eh]
        } else {
            gen_clip_rect(rng, w, h)
        };
        self.push(surf, Op::PopClip);
        self.push(surf, Op::PushClipRect(r));
        true
    }

    /// pops the most recent clip or the innermost layer, whichever the coin says (C07: any order
    /// of pops is a legal call sequence as long as every pop has its push)
    pub fn any_pop(&mut self, rng: &mut Rng, surf: usize) {
        let b = &self.shadows[surf].brackets;
        let has_clip = b.iter().any(|x| !matches!(x.0, mk::Bracket::Layer));
        let has_layer = b.iter().any(|x| matches!(x.0, mk::Bracket::Layer));
        match (has_clip, has_layer) {
            (true, true) => {
                if rng.chance(1, 2) {
                    self.push(surf, Op::PopClip)
                } else {
                    self.push(surf, Op::PopLayer)
                }
            }
            (true, false) => self.push(surf, Op::PopClip),
            (false, true) => self.push(surf, Op::PopLayer),
            _ => {}
        }
    }

    pub fn close_all(&mut self) {
        for s in 0..self.surfaces.len() {
            while !self.shadows[s].brackets.is_empty() {
                self.close_one(s);
            }
        }
    }

    pub fn finish(self, buggify: u32, variant: u32, tick_budget: u64, swarm: String) -> History {
        History { surfaces: self.surfaces, steps: self.steps, buggify, variant, tick_budget, swarm }
    }
}

#[derive(Clone)]
pub struct DrawCfg {
    /// [fill, fill_rect, stroke, clear, mask, draw_image_at, draw_image_with_size_at]
    pub kinds: [u32; 7],
    pub blend: BlendProfile,
    pub sources: [u32; 6],
    pub sparse: bool,
    pub path: PathCfg,
}

impl DrawCfg {
    pub fn general() -> DrawCfg {
        DrawCfg { kinds: [8, 5, 4, 1, 2, 2, 1], blend: BlendProfile::Common, sources: SRC_ALL, sparse: false, path: PATH_ANY }
    }
}

pub fn gen_int_rect_f(rng: &mut Rng, w: i32, h: i32) -> [F; 4] {
    let x = rng.range(-3, w + 2);
    let y = rng.range(-3, h + 2);
    let (rw, rh) = match rng.below(10) {
        0 => (0, rng.range(0, h + 2)),
        1 => (rng.range(0, w + 2), 0),
        // a negative extent describes the same rectangle from its other corner
        2 => (-rng.range(1, w + 2), rng.range(1, h + 2)),
        3 => (rng.range(1, w + 2), -rng.range(1, h + 2)),
        _ => (rng.range(1, w + 4), rng.range(1, h + 4)),
    };
    [F(x as f32), F(y as f32), F(rw as f32), F(rh as f32)]
}

/// One ordinary drawing call for surface (w, h)
pub fn gen_draw(rng: &mut Rng, w: i32, h: i32, cfg: &DrawCfg) -> Op {
    let e = w.max(h).max(1);
    match rng.weighted(&cfg.kinds) {
        0 => {
            let path = if cfg.sparse && rng.chance(2, 3) { gen_sparse_path(rng, w, h) } else { gen_path(rng, w, h, cfg.path) };
            Op::Fill { path, src: gen_source(rng, w, h, &cfg.sources), opts: gen_opts(rng, cfg.blend) }
        }
        1 => {
            let rect = if rng.chance(1, 2) {
                gen_int_rect_f(rng, w, h)
            } else if rng.chance(1, 3) {
                // almost an integer rectangle: one or two of the four numbers are off the grid
                // (by a quarter, a half, a thousandth or one ulp) - the decision between the
                // integer fast path and the general route looks at each of them
                let mut r = gen_int_rect_f(rng, w, h);
                for _ in 0..(1 + rng.usize(2)) {
                    let i = rng.usize(4);
                    let d = rng.pick(&[0.25f32, -0.25, 0.5, -0.5, 0.001, -0.001, 0.75]);
                    r[i] = if rng.chance(1, 6) { F(f32::from_bits((r[i].0.to_bits() as i32 + if rng.chance(1, 2) { 1 } else { -1 }) as u32)) } else { F(r[i].0 + d) };
                    if !r[i].0.is_finite() {
                        r[i] = F(0.5);
                    }
                }
                r
            } else {
                let q = rng.chance(1, 2);
                let x = coord(rng, w, q);
                let y = coord(rng, h, q);
                [F(x), F(y), F(rng.f32_in(0., w as f32 + 2.)), F(rng.f32_in(0., h as f32 + 2.))]
            };
            Op::FillRect { rect, src: gen_source(rng, w, h, &cfg.sources), opts: gen_opts(rng, cfg.blend) }
        }
        2 => {
            let path = gen_path(rng, w, h, cfg.path);
            let src = gen_source(rng, w, h, &cfg.sources);
            let mut style = gen_stroke_style(rng, e);
            if path.segs.len() > 40 {
                // a crowded path (dozens of subpaths) is stroked undashed: dashed, its thousands of
                // edges on a handful of sample rows cost the rasteriser more than a minute
                style.dash_array.clear();
            }
            Op::Stroke { path, src, style, opts: gen_opts(rng, cfg.blend) }
        }
        3 => {
            let p = valid_pixel(rng);
            Op::Clear { argb: [(p >> 24) as u8, (p >> 16) as u8, (p >> 8) as u8, p as u8] }
        }
        4 => {
            let (x, y, mw, mh, data) = gen_mask(rng, w, h);
            Op::Mask { src: gen_source(rng, w, h, &cfg.sources), x, y, w: mw, h: mh, data }
        }
        5 => {
            let (x, y) = if rng.chance(2, 3) {
                (rng.range(-4, w + 1) as f32, rng.range(-4, h + 1) as f32)
            } else {
                (rng.f32_in(-4., w as f32 + 1.), rng.f32_in(-4., h as f32 + 1.))
            };
            Op::DrawImageAt { x: F(x), y: F(y), img: gen_image(rng), opts: gen_opts(rng, cfg.blend) }
        }
        _ => Op::DrawImageSized {
            w: F(rng.f32_in(0.5, w as f32 + 3.)),
            h: F(rng.f32_in(0.5, h as f32 + 3.)),
            x: F(rng.f32_in(-3., w as f32)),
            y: F(rng.f32_in(-3., h as f32)),
            img: gen_image(rng),
            opts: gen_opts(rng, cfg.blend),
        },
    }
}

// ---------------------------------------------------------------------------
// NOP-DRAW perturbations: calls that the given properties say must not change a pixel

/// Points all beyond one edge of the surface by at least `margin` device pixels
fn off_surface_path(rng: &mut Rng, w: i32, h: i32, margin: f32, curves: bool) -> PathSpec {
    let side = rng.below(4);
    let n = 2 + rng.usize(4);
    let mut pts = Vec::new();
    for _ in 0..(3 * n) {
        let along_x = rng.f32_in(-(w as f32) - 5., 2. * w as f32 + 5.);
        let along_y = rng.f32_in(-(h as f32) - 5., 2. * h as f32 + 5.);
        let off = margin + rng.f32_in(0., 12.);
        pts.push(match side {
            0 => (along_x, -off),
            1 => (along_x, h as f32 + off),
            2 => (-off, along_y),
            _ => (w as f32 + off, along_y),
        });
    }
    let mut segs = vec![Seg::M(F(pts[0].0), F(pts[0].1))];
    let mut i = 1;
    for _ in 1..n {
        let k = if curves { rng.below(3) } else { 0 };
        match k {
            1 => {
                segs.push(Seg::Q(F(pts[i].0), F(pts[i].1), F(pts[i + 1].0), F(pts[i + 1].1)));
                i += 2;
            }
            2 => {
                segs.push(Seg::C(F(pts[i].0), F(pts[i].1), F(pts[i + 1].0), F(pts[i + 1].1), F(pts[i + 2].0), F(pts[i + 2].1)));
                i += 3;
            }
            _ => {
                segs.push(Seg::L(F(pts[i].0), F(pts[i].1)));
                i += 1;
            }
        }
    }
    if rng.chance(1, 2) {
        segs.push(Seg::Z);
    }
    PathSpec::new(rng.chance(1, 3), segs)
}

pub fn degenerate_path(rng: &mut Rng, w: i32, h: i32, allow_horizontal: bool) -> PathSpec {
    let x = coord(rng, w, true);
    let y = coord(rng, h, true);
    let k = rng.below(6);
    let k = if k == 3 && !allow_horizontal { 4 } else { k };
    let segs = match k {
        0 => vec![],
        1 => vec![Seg::M(F(x), F(y))],
        2 => vec![Seg::M(F(x), F(y)), Seg::L(F(x), F(y)), Seg::Z],
        3 => {
            // horizontal only
            vec![Seg::M(F(x), F(y)), Seg::L(F(coord(rng, w, true)), F(y)), Seg::L(F(coord(rng, w, true)), F(y)), Seg::Z]
        }
        4 => {
            // the same segment forth and back
            vec![Seg::M(F(x), F(y)), Seg::L(F(coord(rng, w, true)), F(coord(rng, h, true))), Seg::Z]
        }
        _ => vec![Seg::L(F(x), F(y))], // a path that is nothing but a line_to
    };
    PathSpec::new(rng.chance(1, 3), segs)
}

/// Returns the steps of one no-op perturbation (bracket ops are ordinary, the draw carries nop = true)
pub fn gen_nop(rng: &mut Rng, em: &mut Emit, surf: usize, cfg: &DrawCfg) {
    let (w, h) = em.dims(surf);
    let ctm = em.shadows[surf].ctm;
    let ctm_is_identity = is_identity(&ctm);
    let e = w.max(h).max(1);
    let any_src = |rng: &mut Rng| gen_source(rng, w, h, &cfg.sources);
    match rng.below(12) {
        0 => {
            let path = degenerate_path(rng, w, h, ctm_is_identity);
            let op = if rng.chance(2, 3) {
                Op::Fill { path, src: any_src(rng), opts: gen_opts(rng, cfg.blend) }
            } else {
                // butt caps: a degenerate subpath gets no cap geometry
                let mut style = gen_stroke_style(rng, e);
                style.cap = 2;
                if path.segs.len() > 1 {
                    // only the truly empty/single-point ones are certain to stroke to nothing
                    Op::Fill { path, src: any_src(rng), opts: gen_opts(rng, cfg.blend) }
                } else {
                    Op::Stroke { path, src: any_src(rng), style, opts: gen_opts(rng, cfg.blend) }
                }
            };
            em.push_flag(surf, op, if ctm_is_identity { 4 } else { 1 });
        }
        1 if ctm_is_identity => {
            // wholly off-surface fill
            let path = off_surface_path(rng, w, h, 2., true);
            em.push_flag(surf, Op::Fill { path, src: any_src(rng), opts: gen_opts(rng, cfg.blend) }, 4);
        }
        2 if ctm_is_identity => {
            // wholly off-surface stroke: keep the whole outline (outset = w/2 * max(miter, sqrt 2)) away
            let mut style = gen_stroke_style(rng, e);
            style.width = F(rng.f32_in(0.2, 4.));
            style.miter_limit = F(rng.f32_in(0., 4.));
            let outset = style.width.0 * 0.5 * style.miter_limit.0.max(1.5) + 2.;
            let path = off_surface_path(rng, w, h, outset, true);
            em.push_flag(surf, Op::Stroke { path, src: any_src(rng), style, opts: gen_opts(rng, cfg.blend) }, 4);
        }
        3 => {
            // zero width (C10's list). Negative and NaN widths are C04's business (not claimed);
            // on the pinned tree a NaN width does paint (incidental finding, see DESIGN.md)
            let mut style = gen_stroke_style(rng, e);
            style.width = F(rng.pick(&[0.0f32, -0.0]));
            let path = gen_path(rng, w, h, cfg.path);
            em.push_flag(surf, Op::Stroke { path, src: any_src(rng), style, opts: gen_opts(rng, cfg.blend) }, 1);
        }
        4 => {
            // dash array whose total is not positive disables the stroke
            let mut style = gen_stroke_style(rng, e);
            style.dash_array = match rng.below(3) {
                0 => vec![F(0.)],
                1 => vec![F(0.), F(0.)],
                _ => vec![F(0.), F(0.), F(0.)],
            };
            let path = gen_path(rng, w, h, cfg.path);
            em.push_flag(surf, Op::Stroke { path, src: any_src(rng), style, opts: gen_opts(rng, cfg.blend) }, 1);
        }
        5 => {
            // zero global alpha under SrcOver
            let mut op = gen_draw(rng, w, h, &DrawCfg { kinds: [4, 3, 2, 0, 0, 2, 1], ..cfg.clone() });
            set_opts(&mut op, |o| {
                o.blend = BLEND_SRC_OVER;
                o.alpha = F(0.);
            });
            em.push_flag(surf, op, 1);
        }
        6 => {
            // Dst keeps the destination whatever the source
            let mut op = gen_draw(rng, w, h, &DrawCfg { kinds: [4, 3, 2, 0, 0, 2, 1], ..cfg.clone() });
            set_opts(&mut op, |o| o.blend = BLEND_DST);
            em.push_flag(surf, op, 1);
        }
        7 => {
            // transparent solid source under SrcOver
            let mut op = gen_draw(rng, w, h, &DrawCfg { kinds: [4, 3, 2, 0, 1, 0, 0], ..cfg.clone() });
            set_src(&mut op, SrcSpec::solid(0, 0, 0, 0));
            set_opts(&mut op, |o| o.blend = BLEND_SRC_OVER);
            em.push_flag(surf, op, 1);
        }
        8 => {
            // any draw under a singular transform
            let sing = mk::unmat(&gen_singular(rng));
            em.push(surf, Op::SetTransform(sing));
            let op = gen_draw(rng, w, h, &DrawCfg { kinds: [4, 3, 2, 0, 0, 0, 0], ..cfg.clone() });
            em.push_flag(surf, op, 2);
            em.push(surf, Op::SetTransform(ctm));
        }
        9 => {
            // any draw under an empty clip
            let r = match rng.below(3) {
                0 => {
                    let x = rng.range(-2, w + 2);
                    let y = rng.range(-2, h + 2);
                    [x, y, x, y + rng.range(0, 3)]
                }
                1 => [w, 0, w + 5, h],
                _ => {
                    let x = rng.range(1, w + 3);
                    [x, 0, x - 1, h]
                }
            };
            em.push(surf, Op::PushClipRect(r));
            let op = gen_draw(rng, w, h, cfg);
            em.push_flag(surf, op, 3);
            em.push(surf, Op::PopClip);
        }
        10 => {
            // mask that is all zero, or wholly off the surface
            let (mut x, mut y, mw, mh, mut data) = gen_mask(rng, w, h);
            if rng.chance(1, 2) {
                for d in data.iter_mut() {
                    *d = 0;
                }
            } else {
                match rng.below(4) {
                    0 => x = -mw - rng.range(0, 5),
                    1 => x = w + rng.range(0, 5),
                    2 => y = -mh - rng.range(0, 5),
                    _ => y = h + rng.range(0, 5),
                }
            }
            em.push_flag(surf, Op::Mask { src: any_src(rng), x, y, w: mw, h: mh, data }, 1);
        }
        _ => {
            // fill_rect with no area or wholly off surface (integer and fractional)
            let rect = match rng.below(4) {
                0 => [F(rng.range(-2, w + 2) as f32), F(rng.range(-2, h + 2) as f32), F(0.), F(rng.range(0, h + 2) as f32)],
                1 => [F(rng.range(-2, w + 2) as f32), F(rng.range(-2, h + 2) as f32), F(rng.range(0, w + 2) as f32), F(0.)],
                2 => [F(w as f32 + rng.f32_in(1., 4.)), F(rng.f32_in(-2., h as f32)), F(rng.f32_in(0., 9.)), F(rng.f32_in(0., 9.))],
                _ => [F(rng.f32_in(-2., w as f32)), F(-rng.f32_in(4., 9.)), F(rng.f32_in(0., 9.)), F(rng.f32_in(0., 2.5))],
            };
            if ctm_is_identity {
                em.push_flag(surf, Op::FillRect { rect, src: any_src(rng), opts: gen_opts(rng, cfg.blend) }, 4);
            } else {
                let path = degenerate_path(rng, w, h, ctm_is_identity);
                em.push_flag(surf, Op::Fill { path, src: any_src(rng), opts: gen_opts(rng, cfg.blend) }, 1);
            }
        }
    }
}

pub fn set_opts(op: &mut Op, f: impl FnOnce(&mut Opts)) {
    match op {
        Op::Fill { opts, .. }
        | Op::FillRect { opts, .. }
        | Op::Stroke { opts, .. }
        | Op::DrawImageAt { opts, .. }
        | Op::DrawImageSized { opts, .. } => f(opts),
        _ => {}
    }
}

pub fn get_opts(op: &Op) -> Option<&Opts> {
    match op {
        Op::Fill { opts, .. }
        | Op::FillRect { opts, .. }
        | Op::Stroke { opts, .. }
        | Op::DrawImageAt { opts, .. }
        | Op::DrawImageSized { opts, .. } => Some(opts),
        _ => None,
    }
}

pub fn set_src(op: &mut Op, s: SrcSpec) {
    match op {
        Op::Fill { src, .. } | Op::FillRect { src, .. } | Op::Stroke { src, .. } | Op::Mask { src, .. } => *src = s,
        _ => {}
    }
}

pub fn get_src(op: &Op) -> Option<&SrcSpec> {
    match op {
        Op::Fill { src, .. } | Op::FillRect { src, .. } | Op::Stroke { src, .. } | Op::Mask { src, .. } => Some(src),
        _ => None,
    }
}

// ---------------------------------------------------------------------------
// a general bracketed scene generator shared by several profiles

#[derive(Clone)]
pub struct SceneCfg {
    pub min_ops: usize,
    pub max_ops: usize,
    pub max_clip: usize,
    pub max_layer: usize,
    /// per-mille rates
    pub p_clip: u32,
    pub p_layer: u32,
    pub p_pop: u32,
    pub p_transform: u32,
    pub p_nop: u32,
    pub p_restart: u32,
    pub p_resync: u32,
    pub allow_singular: bool,
    pub draw: DrawCfg,
    /// clip paths restricted to pixel aligned rectangles (k in {0,255})
    pub aligned_clip_paths: bool,
    pub layer_blend: BlendProfile,
    /// now and then pop the clip under a layer just before the layer (see Emit::early_clip_pop)
    pub early_clip_pop: bool,
}

pub fn gen_clip_path(rng: &mut Rng, w: i32, h: i32, aligned: bool) -> PathSpec {
    if aligned {
        let x = rng.range(-1, w);
        let y = rng.range(-1, h);
        // pixel aligned, either orientation (a negative width or height describes the same box)
        let (rw, rh) = (rng.range(0, w + 1), rng.range(0, h + 1));
        let (fx, fy) = (rng.chance(1, 4), rng.chance(1, 4));
        return PathSpec::new(
            false,
            vec![Seg::Rect(
                F((if fx { x + rw } else { x }) as f32),
                F((if fy { y + rh } else { y }) as f32),
                F((if fx { -rw } else { rw }) as f32),
                F((if fy { -rh } else { rh }) as f32),
            )],
        );
    }
    match rng.below(8) {
        0 => off_surface_path(rng, w, h, 2., true),
        1 => degenerate_path(rng, w, h, true),
        _ => gen_path(rng, w, h, PATH_ANY),
    }
}

pub fn gen_scene(rng: &mut Rng, em: &mut Emit, surf: usize, cfg: &SceneCfg) {
    let (w, h) = em.dims(surf);
    let n = cfg.min_ops + rng.usize(cfg.max_ops - cfg.min_ops + 1);
    let mut after_state_change = false;
    while em.steps.len() < n {
        let sh = &em.shadows[surf];
        let clip_depth = sh.clip_depth();
        let layer_depth = sh.layer_depth();
        let open = sh.brackets.len();
        let r = rng.below(1000) as u32;
        let mut t = 0;
        let mut hit = |p: u32| {
            t += p;
            r < t
        };
        // perturbations are biased to land right after a state change
        let p_nop = if after_state_change { cfg.p_nop * 3 } else { cfg.p_nop };
        after_state_change = false;
        if cfg.early_clip_pop && layer_depth > 0 && rng.chance(1, 8) && em.replace_clip_under_layer(rng, surf) {
            after_state_change = true;
        } else if hit(cfg.p_clip) && clip_depth < cfg.max_clip {
            if rng.chance(1, 2) {
                // inside a layer: now and then a rectangle exactly as large as the layer, shifted
                let r = match em.layer_extents[surf].last() {
                    Some(e) if e[2] > e[0] && e[3] > e[1] && rng.chance(1, 4) => {
                        let (dx, dy) = (rng.range(-3, 3), rng.range(-3, 3));
                        [e[0] + dx, e[1] + dy, e[2] + dx, e[3] + dy]
                    }
                    _ => gen_clip_rect(rng, w, h),
                };
                em.push(surf, Op::PushClipRect(r));
            } else {
                // the very same path object as an earlier clip or fill now and then (anything
                // remembered between calls must not be keyed on the path alone)
                let earlier: Vec<PathSpec> = em
                    .steps
                    .iter()
                    .filter_map(|s| match &s.op {
                        Op::PushClip(p) => Some(p.clone()),
                        Op::Fill { path, .. } if !s.is_nop() => Some(path.clone()),
                        _ => None,
                    })
                    .collect();
                let p = if !earlier.is_empty() && rng.chance(1, 4) { earlier[rng.usize(earlier.len())].clone() } else { gen_clip_path(rng, w, h, cfg.aligned_clip_paths) };
                em.push(surf, Op::PushClip(p));
            }
            after_state_change = true;
        } else if hit(cfg.p_layer) && layer_depth < cfg.max_layer {
            let opacity = match rng.below(5) {
                0 => 0.,
                1 | 2 => 1.,
                _ => rng.unit(),
            };
            let plain = rng.chance(1, 3);
            let blend = if plain { BLEND_SRC_OVER } else { gen_blend(rng, cfg.layer_blend) };
            em.push(surf, Op::PushLayer { opacity: F(opacity), blend, plain });
            after_state_change = true;
        } else if hit(cfg.p_pop) && open > 0 {
            if cfg.early_clip_pop && rng.chance(1, 3) {
                if rng.chance(1, 2) {
                    em.early_clip_pop(surf);
                } else {
                    em.nonlifo_pop(surf);
                }
            } else {
                em.close_one(surf);
            }
            after_state_change = true;
        } else if hit(cfg.p_transform) {
            em.push(surf, Op::SetTransform(gen_transform(rng, w, h, cfg.allow_singular)));
            after_state_change = true;
        } else if hit(p_nop) {
            gen_nop(rng, em, surf, &cfg.draw);
        } else if hit(cfg.p_restart) && layer_depth == 0 {
            em.push(surf, Op::Restart(rng.below(4) as u8));
            after_state_change = true;
        } else if hit(cfg.p_resync) && layer_depth == 0 {
            em.push(surf, Op::Resync);
        } else {
            // an exact repetition of an earlier drawing call now and then
            let earlier: Vec<usize> = em.steps.iter().enumerate().filter(|(_, s)| s.surf == surf && !s.is_nop() && s.op.is_draw() && !matches!(s.op, Op::PopLayer)).map(|(i, _)| i).collect();
            let op = if !earlier.is_empty() && rng.chance(1, 12) { em.steps[earlier[rng.usize(earlier.len())]].op.clone() } else { gen_draw(rng, w, h, &cfg.draw) };
            em.push(surf, op);
        }
    }
    em.close_all();
}

/// multiplies every length of a drawing call by `f` (a power of two: exact)
pub fn scale_geometry(op: &mut Op, f: f32) {
    scale_geometry_xy(op, f, f, f)
}

/// x coordinates times fx, y coordinates times fy, lengths that have no direction (stroke width,
/// dashes, arc radii) times fl
pub fn scale_geometry_xy(op: &mut Op, fx: f32, fy: f32, fl: f32) {
    let sp = |p: &mut PathSpec| {
        for s in p.segs.iter_mut() {
            match s {
                Seg::M(x, y) | Seg::L(x, y) => {
                    x.0 *= fx;
                    y.0 *= fy;
                }
                Seg::Q(a, b, c, d) => {
                    a.0 *= fx;
                    b.0 *= fy;
                    c.0 *= fx;
                    d.0 *= fy;
                }
                Seg::C(a, b, c, d, e, g) => {
                    a.0 *= fx;
                    b.0 *= fy;
                    c.0 *= fx;
                    d.0 *= fy;
                    e.0 *= fx;
                    g.0 *= fy;
                }
                Seg::Z => {}
                Seg::Arc(x, y, r, _, _) => {
                    x.0 *= fx;
                    y.0 *= fy;
                    r.0 *= fl;
                }
                Seg::Rect(x, y, w, h) => {
                    x.0 *= fx;
                    y.0 *= fy;
                    w.0 *= fx;
                    h.0 *= fy;
                }
            }
        }
    };
    match op {
        Op::Fill { path, .. } | Op::PushClip(path) => sp(path),
        Op::Stroke { path, style, .. } => {
            sp(path);
            style.width.0 *= fl;
            style.dash_offset.0 *= fl;
            for d in style.dash_array.iter_mut() {
                d.0 *= fl;
            }
        }
        Op::FillRect { rect, .. } => {
            rect[0].0 *= fx;
            rect[1].0 *= fy;
            rect[2].0 *= fx;
            rect[3].0 *= fy;
        }
        _ => {}
    }
}
