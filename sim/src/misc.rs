//! C15 (surface transfers), C19 (word layout, views, PNG export under I/O faults),
//! C07 (no panic / abort / hang).

use crate::engine::*;
use crate::gen::*;
use crate::kernel::{self, Verdict};
use crate::mk::{self, World};
use crate::ops::*;
use crate::rng::Rng;

fn viol(oracle: &'static str, step: usize, detail: String) -> Outcome {
    Outcome::Violation(Violation { oracle, step, detail, panic: None })
}

// ---------------------------------------------------------------------------
// C15

fn gen_far(rng: &mut Rng, extent: i32) -> i32 {
    match rng.below(12) {
        0 => rng.pick(&[-100_000, 100_000, -65_536, 65_535, -1_000_000_000, 1_000_000_000]),
        1 => rng.range(-1000, 1000),
        2 | 3 => rng.range(-extent - 3, 2 * extent + 3),
        _ => rng.range(-2, extent + 2),
    }
}

pub fn gen_transfer(rng: &mut Rng, from: usize, sw: i32, sh: i32, dw: i32, dh: i32, far: bool) -> Op {
    let g = |rng: &mut Rng, e: i32| if far { gen_far(rng, e) } else { rng.range(-2, e + 2) };
    let rect = match if far { rng.below(8) } else { 3 + rng.below(12) } {
        0 => [0, 0, sw, sh],
        1 => {
            // inverted
            let x = g(rng, sw);
            let y = g(rng, sh);
            [x, y, x - rng.range(0, 4), y - rng.range(0, 4)]
        }
        2 => {
            // empty
            let x = g(rng, sw);
            let y = g(rng, sh);
            [x, y, x, y + rng.range(0, 3)]
        }
        3..=7 => {
            let x = g(rng, sw);
            let y = g(rng, sh);
            let x2 = if rng.chance(1, 5) { g(rng, sw) } else { x.saturating_add(rng.range(0, sw + 3)) };
            let y2 = if rng.chance(1, 5) { g(rng, sh) } else { y.saturating_add(rng.range(0, sh + 3)) };
            [x, y, x2, y2]
        }
        8 | 9 => {
            // exactly as large as the source (or as the destination), but shifted
            let (bw, bh) = if rng.chance(1, 2) { (sw, sh) } else { (dw, dh) };
            let x = rng.range(-2, 2);
            let y = rng.range(-2, 2);
            [x, y, x + bw, y + bh]
        }
        _ => {
            // a block that overlaps the source, with a non-zero origin most of the time
            let x = rng.range(-1, (sw - 1).max(0));
            let y = rng.range(-1, (sh - 1).max(0));
            [x, y, rng.range(x + 1, sw + 1).max(x + 1), rng.range(y + 1, sh + 1).max(y + 1)]
        }
    };
    let dst = if far || rng.chance(1, 3) {
        [g(rng, dw), g(rng, dh)]
    } else if rng.chance(1, 4) {
        // the corners of the destination
        [rng.pick(&[0, 0, -1, 1]), rng.pick(&[0, 0, -1, 1])]
    } else {
        [rng.range(-2, (dw - 1).max(0)), rng.range(-2, (dh - 1).max(0))]
    };
    match rng.below(3) {
        0 => Op::CopySurface { from, rect, dst },
        1 => Op::BlendSurface { from, rect, dst, blend: gen_blend(rng, BlendProfile::Uniform) },
        _ => Op::BlendSurfaceAlpha { from, rect, dst, alpha: F(gen_alpha(rng)) },
    }
}

pub fn gen_c15(rng: &mut Rng, thorough: bool) -> History {
    let ns = 2 + rng.usize(2);
    let zero_ok = rng.chance(1, 3);
    let mut surfaces: Vec<SurfSpec> = (0..ns).map(|_| if thorough && rng.chance(1, 16) { gen_surface_big(rng, false) } else { gen_surface(rng, if thorough { 33 } else { 16 }, zero_ok, false) }).collect();
    if rng.chance(1, 3) {
        // equally sized surfaces are the common case in practice (whole-surface copies)
        let (w, h) = (surfaces[0].w, surfaces[0].h);
        for s in surfaces.iter_mut().skip(1) {
            s.w = w;
            s.h = h;
            s.pixels = busy_pixels(rng, (w * h) as usize);
        }
    }
    if rng.chance(1, 4) {
        // sparse content: whole rows of fully transparent pixels
        for s in surfaces.iter_mut() {
            let w = s.w.max(1) as usize;
            for (i, p) in s.pixels.iter_mut().enumerate() {
                if (i / w) % 2 == 0 || rng.chance(1, 3) {
                    *p = 0;
                }
            }
        }
    }
    let mut em = Emit::new(surfaces);
    let n = 2 + rng.usize(if thorough { 18 } else { 9 });
    let draw = DrawCfg::general();
    while em.steps.len() < n {
        let si = rng.usize(ns);
        let (w, h) = em.dims(si);
        match rng.below(10) {
            0 => em.push(si, Op::SetTransform(gen_transform(rng, w, h, true))),
            1 => {
                if em.shadows[si].clip_depth() < 2 {
                    if rng.chance(1, 2) {
                        em.push(si, Op::PushClipRect(gen_clip_rect(rng, w, h)));
                    } else {
                        em.push(si, Op::PushClip(gen_clip_path(rng, w, h, false)));
                    }
                }
            }
            2 => {
                if em.shadows[si].layer_depth() < 1 && w > 0 && h > 0 {
                    em.push(si, Op::PushLayer { opacity: F(rng.unit()), blend: BLEND_SRC_OVER, plain: true });
                }
            }
            3 => {
                if w > 0 && h > 0 {
                    let op = gen_draw(rng, w, h, &draw);
                    em.push(si, op);
                }
            }
            _ => {
                let mut from = rng.usize(ns);
                if from == si {
                    from = (from + 1) % ns;
                }
                let (sw, sh) = em.dims(from);
                let far = rng.chance(1, 3);
                let op = gen_transfer(rng, from, sw, sh, w, h, far);
                em.push(si, op);
            }
        }
    }
    em.close_all();
    em.finish(0, 0, 2_000_000_000, "c15".to_string())
}

/// The block transfer as the statement defines it. Returns the expected destination, or for
/// blend_surface_with_alpha the (source, alpha byte) per pixel to be judged by the kernel.
fn transfer_model(op: &Op, src: &[u32], sw: i32, sh: i32, dst: &[u32], dw: i32, dh: i32) -> (Vec<u32>, Vec<Option<(u32, u8)>>) {
    let (rect, d0, what) = match op {
        Op::CopySurface { rect, dst, .. } => (rect, dst, 0),
        Op::BlendSurface { rect, dst, .. } => (rect, dst, 1),
        Op::BlendSurfaceAlpha { rect, dst, .. } => (rect, dst, 2),
        _ => unreachable!(),
    };
    let mut out = dst.to_vec();
    let mut judged: Vec<Option<(u32, u8)>> = vec![None; dst.len()];
    // the part of src_rect lying inside the source surface
    let x1 = rect[0].max(0) as i64;
    let y1 = rect[1].max(0) as i64;
    let x2 = rect[2].min(sw) as i64;
    let y2 = rect[3].min(sh) as i64;
    let mut sy = y1;
    while sy < y2 {
        let mut sx = x1;
        while sx < x2 {
            let tx = d0[0] as i64 + (sx - rect[0] as i64);
            let ty = d0[1] as i64 + (sy - rect[1] as i64);
            if tx >= 0 && ty >= 0 && tx < dw as i64 && ty < dh as i64 {
                let s = src[(sy * sw as i64 + sx) as usize];
                let di = (ty * dw as i64 + tx) as usize;
                match (what, op) {
                    (0, _) => out[di] = s,
                    (1, Op::BlendSurface { blend, .. }) => out[di] = kernel::blend_px(*blend, s, dst[di]),
                    (_, Op::BlendSurfaceAlpha { alpha, .. }) => {
                        let a = (alpha.0 * 255. + 0.5) as u8;
                        judged[di] = Some((s, a));
                    }
                    _ => unreachable!(),
                }
            }
            sx += 1;
        }
        sy += 1;
    }
    (out, judged)
}

pub fn run_c15(h: &History, st: &mut Stats) -> Outcome {
    raqote::verif::set_buggify(0);
    let mut p = World::new(&h.surfaces);
    let budget = h.tick_budget;
    let mut transfers = 0;
    let mut moved_pixels = 0u64;
    let mut with_state = 0;
    for (i, step) in h.steps.iter().enumerate() {
        let si = step.surf;
        if si >= p.surfs.len() {
            continue;
        }
        let is_transfer = matches!(step.op, Op::CopySurface { .. } | Op::BlendSurface { .. } | Op::BlendSurfaceAlpha { .. });
        if !is_transfer {
            if let Err(pi) = exec(&mut p, step, budget, st) {
                st.abort(&panic_class(&pi));
                return Outcome::Aborted(panic_desc(&pi));
            }
            continue;
        }
        let from = match &step.op {
            Op::CopySurface { from, .. } | Op::BlendSurface { from, .. } | Op::BlendSurfaceAlpha { from, .. } => *from,
            _ => unreachable!(),
        };
        if from >= p.surfs.len() || from == si {
            continue;
        }
        let src_before = p.surfs[from].pixels().to_vec();
        let dst_before = p.surfs[si].pixels().to_vec();
        let (sw, sh) = (p.surfs[from].w(), p.surfs[from].h());
        let (dw, dh) = (p.surfs[si].w(), p.surfs[si].h());
        if let Err(pi) = exec(&mut p, step, budget, st) {
            if pi.budget_site.is_some() {
                st.abort(&panic_class(&pi));
                return Outcome::Aborted(panic_desc(&pi));
            }
            return Outcome::Violation(Violation {
                oracle: "c15.transfer-panicked",
                step: i,
                detail: format!("{} from {}x{} to {}x{} {:?}: {}", step.op.name(), sw, sh, dw, dh, step.op, panic_desc(&pi)),
                panic: Some(pi),
            });
        }
        transfers += 1;
        let sh_ = &p.shadows[si];
        if !is_identity(&sh_.ctm) || !sh_.brackets.is_empty() || !p.shadows[from].brackets.is_empty() {
            with_state += 1;
        }
        let (expect, judged) = transfer_model(&step.op, &src_before, sw, sh, &dst_before, dw, dh);
        let obs = p.surfs[si].pixels();
        for di in 0..obs.len() {
            let ok = match judged[di] {
                None => obs[di] == expect[di],
                Some((s, a)) => matches!(kernel::judge(obs[di], dst_before[di], s, a, None, BLEND_SRC_OVER), Verdict::Ok),
            };
            if obs[di] != dst_before[di] {
                moved_pixels += 1;
            }
            if !ok {
                return viol(
                    "c15.block-transfer",
                    i,
                    format!(
                        "{:?} from {}x{} onto {}x{}: destination pixel ({},{}) was {:08x}, is {:08x}, model says {}",
                        step.op,
                        sw,
                        sh,
                        dw,
                        dh,
                        di as i32 % dw.max(1),
                        di as i32 / dw.max(1),
                        dst_before[di],
                        obs[di],
                        match judged[di] {
                            None => format!("{:08x}", expect[di]),
                            Some((s, a)) => format!("source-over of {:08x} scaled by {}", s, a),
                        }
                    ),
                );
            }
        }
        if let Some(d) = first_diff(&src_before, p.surfs[from].pixels(), sw) {
            return viol("c15.source-changed", i, format!("{}: the source surface changed: {}", step.op.name(), d));
        }
        if let Err(mut v) = check_shadow(&p, si, "c15", i) {
            v.oracle = "c15.state-changed";
            return Outcome::Violation(v);
        }
        // transform, clip and layers are ignored: the same call on targets without any state
        let mut twin = World::new(&[
            SurfSpec { w: dw, h: dh, pixels: dst_before.clone() },
            SurfSpec { w: sw, h: sh, pixels: src_before.clone() },
        ]);
        let mut top = step.op.clone();
        match &mut top {
            Op::CopySurface { from, .. } | Op::BlendSurface { from, .. } | Op::BlendSurfaceAlpha { from, .. } => *from = 1,
            _ => {}
        }
        let tstep = Step { surf: 0, op: top, nop: 0 };
        if let Err(pi) = exec(&mut twin, &tstep, budget, st) {
            st.abort(&panic_class(&pi));
            return Outcome::Aborted(format!("twin: {}", panic_desc(&pi)));
        }
        st.count("twin.stateless_transfers");
        if let Some(d) = first_diff(p.surfs[si].pixels(), twin.surfs[0].pixels(), dw) {
            return viol("c15.state-not-ignored", i, format!("{} differs from the same call on targets without transform/clip/layers: {}", step.op.name(), d));
        }
    }
    st.add("c15.transfers", transfers);
    st.add("c15.transfers_with_foreign_state", with_state);
    st.add("c15.pixels_changed", moved_pixels);
    st.nontrivial_flag = transfers >= 1 && moved_pixels > 0;
    Outcome::Ok
}

// ---------------------------------------------------------------------------
// C19

pub const V19_ENUMERATE_OFFSETS: u32 = 1;

pub fn gen_c19(rng: &mut Rng, thorough: bool) -> History {
    let mut surf = gen_surface(rng, 64, true, true);
    if rng.chance(1, 2500) {
        // a large surface (more than 2^18 pixels) that compresses to next to nothing: blank, one
        // colour, or sparse - an export path chosen by size or by content, and a file small enough
        // to sit in a write buffer until the very end, where a failed write is easily lost
        let (w, h) = (rng.range(512, 600), rng.range(512, 560));
        let n = (w * h) as usize;
        let c = match rng.below(3) {
            0 => 0,
            1 => 0xff000000 | (rng.next_u32() & 0xffffff),
            _ => valid_pixel(rng),
        };
        let mut pixels = vec![c; n];
        if rng.chance(1, 2) {
            for _ in 0..20 {
                let i = rng.usize(n);
                pixels[i] = valid_pixel(rng);
            }
        }
        surf = SurfSpec { w, h, pixels };
    } else if rng.chance(1, 8) {
        // arbitrary words: the layout claims are for all pixel values
        for p in surf.pixels.iter_mut() {
            *p = rng.next_u32();
        }
    }
    let (w, h) = (surf.w, surf.h);
    let npx = (w * h) as usize;
    let mut em = Emit::new(vec![surf]);
    let faults = rng.chance(1, 2);
    let n = 2 + rng.usize(11);
    for _ in 0..n {
        let op = match rng.below(12) {
            0 | 1 => Op::Poke32 { idx: rng.usize(npx.max(1)), val: if rng.chance(1, 2) { valid_pixel(rng) } else { rng.next_u32() } },
            2 | 3 => Op::Poke8 { idx: rng.usize((npx * 4).max(1)), val: rng.below(256) as u8 },
            4 => {
                // the views address the surface itself, also while a layer is open
                if w > 0 && h > 0 && rng.chance(1, 3) {
                    if em.shadows[0].layer_depth() == 0 {
                        Op::PushLayer { opacity: F(rng.unit()), blend: BLEND_SRC_OVER, plain: true }
                    } else {
                        Op::PopLayer
                    }
                } else {
                    Op::ReadViews
                }
            }
            5 | 6 => Op::Restart(rng.below(6) as u8),
            7 => {
                // the packing claim is for all component values, premultiplied or not
                let p = if rng.chance(1, 2) { valid_pixel(rng) } else { rng.next_u32() };
                Op::Clear { argb: [(p >> 24) as u8, (p >> 16) as u8, (p >> 8) as u8, p as u8] }
            }
            8 => {
                let mut cfg = DrawCfg::general();
                cfg.kinds = [3, 3, 1, 0, 1, 1, 0];
                if w > 0 && h > 0 {
                    gen_draw(rng, w, h, &cfg)
                } else {
                    Op::ReadViews
                }
            }
            _ => {
                let fault = if !faults {
                    IoFault::None
                } else {
                    match rng.below(10) {
                        0 => IoFault::None,
                        1 => IoFault::DevFull,
                        2 => IoFault::NoDir,
                        3 => IoFault::IsDir,
                        4 => IoFault::Overwrite,
                        5 => IoFault::DevNull,
                        _ => IoFault::FileLimit(rng.next_u64() >> 1),
                    }
                };
                Op::WritePng { fault }
            }
        };
        em.push(0, op);
    }
    em.close_all();
    // now and then every single fault offset of a small file instead of one seeded offset
    let variant = if faults && ((thorough && npx <= 64 && rng.chance(1, 20)) || (npx <= 16 && rng.chance(1, 60))) { V19_ENUMERATE_OFFSETS } else { 0 };
    em.finish(0, variant, 2_000_000_000, format!("c19 faults={}", faults))
}

fn expected_rgba(px: &[u32]) -> (Vec<u8>, Vec<[bool; 4]>) {
    let mut out = Vec::with_capacity(px.len() * 4);
    let mut defined = Vec::with_capacity(px.len());
    for p in px {
        let a = p >> 24;
        let (mut r, mut g, mut b) = ((p >> 16) & 0xff, (p >> 8) & 0xff, p & 0xff);
        // floor(c*255/a) is only representable when c <= a: channel by channel (a channel above
        // its alpha says nothing about the others, and alpha is always defined)
        defined.push([a == 0 || r <= a, a == 0 || g <= a, a == 0 || b <= a, true]);
        if a > 0 {
            r = r * 255 / a;
            g = g * 255 / a;
            b = b * 255 / a;
        }
        out.extend_from_slice(&[r as u8, g as u8, b as u8, a as u8]);
    }
    (out, defined)
}

fn decode_png(bytes: &[u8]) -> Result<(u32, u32, Vec<u8>), String> {
    let decoder = png::Decoder::new(std::io::Cursor::new(bytes));
    let mut reader = decoder.read_info().map_err(|e| format!("read_info: {}", e))?;
    let mut buf = vec![0; reader.output_buffer_size()];
    let info = reader.next_frame(&mut buf).map_err(|e| format!("next_frame: {}", e))?;
    if info.color_type != png::ColorType::Rgba || info.bit_depth != png::BitDepth::Eight {
        return Err(format!("colour type {:?} depth {:?}", info.color_type, info.bit_depth));
    }
    buf.truncate(info.buffer_size());
    Ok((info.width, info.height, buf))
}

fn check_png_file(file: &Option<Vec<u8>>, px: &[u32], w: i32, h: i32) -> Result<(), String> {
    let bytes = match file {
        Some(b) => b,
        None => return Err("no file was written".into()),
    };
    let (pw, ph, data) = decode_png(bytes).map_err(|e| format!("the file ({} bytes) does not decode: {}", bytes.len(), e))?;
    // a PNG stream ends with the IEND chunk: nothing may follow it (a decoder would not notice)
    const IEND: [u8; 12] = [0, 0, 0, 0, 0x49, 0x45, 0x4e, 0x44, 0xae, 0x42, 0x60, 0x82];
    if bytes.len() < 12 || bytes[bytes.len() - 12..] != IEND {
        return Err(format!("the file ({} bytes) does not end with the IEND chunk (stale or extra bytes after the image)", bytes.len()));
    }
    if pw as i32 != w || ph as i32 != h {
        return Err(format!("image is {}x{}, surface is {}x{}", pw, ph, w, h));
    }
    let (exp, defined) = expected_rgba(px);
    if data.len() != exp.len() {
        return Err(format!("decoded {} bytes, expected {}", data.len(), exp.len()));
    }
    for i in 0..px.len() {
        if (0..4).any(|c| defined[i][c] && data[4 * i + c] != exp[4 * i + c]) {
            return Err(format!(
                "pixel ({},{}) word {:08x}: file has RGBA {:?}, expected {:?}",
                i as i32 % w,
                i as i32 / w,
                px[i],
                &data[4 * i..4 * i + 4],
                &exp[4 * i..4 * i + 4]
            ));
        }
    }
    Ok(())
}

pub fn run_c19(h: &History, io_dir: &str, st: &mut Stats) -> Outcome {
    raqote::verif::set_buggify(0);
    let mut p = World::new(&h.surfaces[..1]);
    p.io_dir = io_dir.to_string();
    let budget = h.tick_budget;
    let (w, hh) = (h.surfaces[0].w, h.surfaces[0].h);
    let mut model: Vec<u32> = h.surfaces[0].pixels.clone();
    let mut checks = 0u64;
    let le_bytes = |m: &[u32]| -> Vec<u8> { m.iter().flat_map(|p| p.to_le_bytes()).collect() };
    for (i, step) in h.steps.iter().enumerate() {
        if step.surf != 0 {
            continue;
        }
        let owned = matches!(step.op, Op::Poke32 { .. } | Op::Poke8 { .. } | Op::ReadViews | Op::Restart(_) | Op::WritePng { .. });
        // a fault-free reference export first, so that the fault offset can be placed inside the file
        let mut op = step.op.clone();
        if let Op::WritePng { fault: IoFault::FileLimit(nraw) } = &step.op {
            let reference = Step { surf: 0, op: Op::WritePng { fault: IoFault::None }, nop: 0 };
            match mk::guarded(budget, || p.apply(&reference)) {
                Ok(()) => {}
                Err(pi) => {
                    return Outcome::Violation(Violation { oracle: "c19.write-png-panicked", step: i, detail: panic_desc(&pi), panic: Some(pi) });
                }
            }
            let len = p.last_png.as_ref().and_then(|o| o.file.as_ref().map(|f| f.len())).unwrap_or(0) as u64;
            if len == 0 {
                op = Op::WritePng { fault: IoFault::None };
            } else if h.variant & V19_ENUMERATE_OFFSETS != 0 {
                // every offset of this (small) file
                for n in 0..len {
                    let s = Step { surf: 0, op: Op::WritePng { fault: IoFault::FileLimit(n) }, nop: 0 };
                    if let Some(o) = c19_png_step(&mut p, &s, i, budget, &model, w, hh, true, st) {
                        return o;
                    }
                    st.count("io_fault.offsets_enumerated");
                }
                checks += len;
                continue;
            } else {
                op = Op::WritePng { fault: IoFault::FileLimit(nraw % len) };
            }
        }
        let estep = Step { surf: 0, op: op.clone(), nop: 0 };
        if let Op::WritePng { fault } = &op {
            let fault_fires = !matches!(fault, IoFault::None | IoFault::Overwrite);
            if let Some(o) = c19_png_step(&mut p, &estep, i, budget, &model, w, hh, fault_fires, st) {
                return o;
            }
            checks += 1;
            continue;
        }
        match exec(&mut p, &estep, budget, st) {
            Ok(()) => {}
            Err(pi) => {
                if owned && pi.budget_site.is_none() {
                    return Outcome::Violation(Violation { oracle: "c19.view-op-panicked", step: i, detail: format!("{}: {}", op.name(), panic_desc(&pi)), panic: Some(pi) });
                }
                st.abort(&panic_class(&pi));
                return Outcome::Aborted(panic_desc(&pi));
            }
        }
        match &op {
            Op::Poke32 { idx, val } => {
                if !model.is_empty() {
                    let k = idx % model.len();
                    model[k] = *val;
                }
            }
            Op::Poke8 { idx, val } => {
                if !model.is_empty() {
                    let k = idx % (model.len() * 4);
                    let sh = 8 * (k % 4) as u32;
                    model[k / 4] = (model[k / 4] & !(0xffu32 << sh)) | ((*val as u32) << sh);
                }
            }
            Op::ReadViews => {
                let v = p.last_views.take().unwrap();
                let bytes = le_bytes(&model);
                if v.words != model || v.words_via_mut != model {
                    return viol("c19.word-view", i, format!("get_data()/get_data_mut() differ from the words written: {}", first_diff(&v.words, &model, w).or(first_diff(&v.words_via_mut, &model, w)).unwrap_or_default()));
                }
                if v.bytes != bytes || v.bytes_via_mut != bytes {
                    return viol("c19.byte-view", i, "get_data_u8()/get_data_u8_mut() are not the B,G,R,A bytes of the words".to_string());
                }
                checks += 1;
            }
            Op::Restart(_) if p.shadows[0].layer_depth() > 0 => {
                // not possible while a layer is open (its buffer cannot be carried over): skipped
            }
            Op::Restart(kind) => {
                st.count("perturbation.restart");
                let handed_back = p.last_restart_buf.take();
                if kind % 6 == 5 {
                    // rebuilt from a vector cut to two thirds: the rest is zero filled
                    let keep = model.len() * 2 / 3;
                    if let Some(buf) = &handed_back {
                        if *buf != model {
                            return viol("c19.round-trip", i, format!("restart kind {}: the buffer handed back differs from the pixels: {}", kind, first_diff(buf, &model, w).unwrap_or_default()));
                        }
                    }
                    for m in model[keep..].iter_mut() {
                        *m = 0;
                    }
                }
                if let Some(buf) = handed_back.filter(|_| kind % 6 != 5) {
                    if buf != model {
                        return viol("c19.round-trip", i, format!("restart kind {}: the buffer handed back differs from the pixels: {}", kind, first_diff(&buf, &model, w).unwrap_or_default()));
                    }
                }
                checks += 1;
            }
            Op::Clear { .. } if p.shadows[0].layer_depth() > 0 => {
                // goes into the open layer: the surface itself must not change
                if let Some(d) = first_diff(p.surfs[0].pixels(), &model, w) {
                    return viol("c19.word-view", i, format!("clear() while a layer is open changed the surface: {}", d));
                }
            }
            Op::Clear { argb } => {
                let c = ((argb[0] as u32) << 24) | ((argb[1] as u32) << 16) | ((argb[2] as u32) << 8) | argb[3] as u32;
                for m in model.iter_mut() {
                    *m = c;
                }
            }
            _ => {
                // an ordinary draw: the model adopts whatever it produced
                model = p.surfs[0].pixels().to_vec();
            }
        }
        // after every call: all views agree with the model
        let px = p.surfs[0].pixels();
        if px != &model[..] {
            return viol("c19.word-view", i, format!("after {}: get_data() differs from the model: {}", op.name(), first_diff(px, &model, w).unwrap_or_default()));
        }
        let bytes = crate::with_dt!(&p.surfs[0], dt => dt.get_data_u8().to_vec());
        if bytes != le_bytes(&model) {
            return viol("c19.byte-view", i, format!("after {}: get_data_u8() is not the little-endian byte image of get_data()", op.name()));
        }
    }
    st.add("c19.checks", checks);
    st.nontrivial_flag = checks >= 1;
    Outcome::Ok
}

/// one write_png call and its oracle; Some(outcome) ends the run
fn c19_png_step(p: &mut World, step: &Step, i: usize, budget: u64, model: &[u32], w: i32, h: i32, fault_injected: bool, st: &mut Stats) -> Option<Outcome> {
    st.ops += 1;
    match mk::guarded(budget, || p.apply(step)) {
        Ok(()) => {}
        Err(pi) => {
            return Some(Outcome::Violation(Violation { oracle: "c19.write-png-panicked", step: i, detail: format!("{:?}: {}", step.op, panic_desc(&pi)), panic: Some(pi) }));
        }
    }
    let out = p.last_png.take().unwrap();
    let fault = match &step.op {
        Op::WritePng { fault } => fault.clone(),
        _ => unreachable!(),
    };
    match &fault {
        IoFault::None => st.count("io_fault.none"),
        IoFault::FileLimit(_) => st.count("io_fault.efbig_short_write"),
        IoFault::DevFull => st.count("io_fault.enospc"),
        IoFault::NoDir => st.count("io_fault.enoent"),
        IoFault::IsDir => st.count("io_fault.eisdir"),
        IoFault::Overwrite => st.count("io_env.longer_file_already_there"),
        IoFault::DevNull => st.count("io_env.dev_null"),
    }
    if out.returned_ok {
        st.count("io.returned_ok");
    } else {
        st.count("io.returned_err");
    }
    if w == 0 || h == 0 {
        // a surface with a zero dimension cannot be represented as a PNG: only "no panic" is required
        return None;
    }
    if let IoFault::DevNull = fault {
        // every byte is accepted: the call has to report success (there is nothing to read back)
        if !out.returned_ok {
            return Some(viol("c19.png-export", i, format!("write_png to /dev/null, which accepts every byte, failed: {}", out.err)));
        }
        return None;
    }
    if !fault_injected {
        if !out.returned_ok {
            return Some(viol("c19.png-export", i, format!("write_png failed without any injected fault: {}", out.err)));
        }
        if let Err(e) = check_png_file(&out.file, model, w, h) {
            return Some(viol("c19.png-export", i, e));
        }
        return None;
    }
    // under an injected I/O fault the call may fail, but an Ok must mean a complete, correct file
    if out.returned_ok {
        match &fault {
            IoFault::FileLimit(n) => {
                if let Err(e) = check_png_file(&out.file, model, w, h) {
                    return Some(viol(
                        "c19.ok-but-file-incomplete",
                        i,
                        format!("write_png returned Ok(()) although the file system refused every byte beyond offset {} (EFBIG); on disk: {}", n, e),
                    ));
                }
            }
            other => {
                return Some(viol("c19.ok-but-not-written", i, format!("write_png returned Ok(()) under {:?}, where no complete file can have been written", other)));
            }
        }
    }
    None
}

// ---------------------------------------------------------------------------
// C07

fn degenerate_f32(rng: &mut Rng) -> f32 {
    rng.pick(&[0.0f32, -0.0, -1., 2., 1.02, -0.001, f32::NAN, f32::INFINITY, f32::NEG_INFINITY, 1e30, -1e30, 1.0000001, f32::MIN_POSITIVE])
}

fn c07_transform(rng: &mut Rng) -> Mat {
    // Either exactly singular or well conditioned: the inverse of the CTM positions image and
    // gradient sources, whose coordinates live in 16.16 fixed point inside sw-composite (C13's
    // stated domain). |det| >= 0.25 and |translation| <= 100 keep them below 2^14.
    let sgn = |rng: &mut Rng| if rng.chance(1, 2) { -1.0f32 } else { 1.0 };
    let t = match rng.below(8) {
        0 | 1 | 2 => raqote::Transform::identity(),
        3 => mk::mat(&mk::unmat(&gen_singular(rng))),
        4 => raqote::Transform::translation(rng.f32_in(-100., 100.), rng.f32_in(-100., 100.)),
        5 => raqote::Transform::scale(sgn(rng) * rng.f32_in(0.25, 4.), sgn(rng) * rng.f32_in(0.25, 4.)),
        _ => {
            let t = raqote::Transform::new(rng.f32_in(-2.8, 2.8), rng.f32_in(-2.8, 2.8), rng.f32_in(-2.8, 2.8), rng.f32_in(-2.8, 2.8), rng.f32_in(-100., 100.), rng.f32_in(-100., 100.));
            if t.determinant().abs() < 0.25 {
                raqote::Transform::translation(rng.range(-100, 100) as f32, rng.range(-100, 100) as f32)
            } else {
                t
            }
        }
    };
    mk::unmat(&t)
}

/// user-space coordinate such that |T p| stays within +-4000 for every transform c07_transform makes
fn c07_coord(rng: &mut Rng, extent: i32, identity: bool) -> f32 {
    let r = if identity { 3900. } else { 300. };
    match rng.below(12) {
        0 => rng.pick(&[-r, r, 0., -0.0, r - 0.25, -r + 0.25]),
        1 => rng.f32_in(-r, r),
        2 => rng.f32_in(-r, r).round(),
        _ => {
            let q = rng.chance(1, 2);
            coord(rng, extent, q).max(-r).min(r)
        }
    }
}

fn c07_path(rng: &mut Rng, w: i32, h: i32, identity: bool) -> PathSpec {
    if rng.chance(1, 25) {
        // A flat, wide curved sliver whose extreme point (reached with a tangent along the other
        // axis) lies exactly on a pixel boundary: stepping along the curve can land a quarter
        // pixel beyond the control polygon there, i.e. just outside the bounds the coverage mask
        // was sized for (repair F21 and the seeded changes around it depend on this geometry)
        let wide = rng.range(5, 24) as f32 + if rng.chance(1, 2) { 0.5 } else { 0. };
        let thin = rng.pick(&[0.25f32, 0.5, 0.75, 1., 1.25]);
        let ex = rng.range(0, w.max(1) + 3) as f32; // the extreme coordinate: a whole pixel
        let o = rng.range(-2, h.max(1) + 2) as f32 + rng.pick(&[0.0f32, 0.25, 0.5, 0.75]);
        let dir = if rng.chance(1, 2) { 1. } else { -1. };
        // the curve leaves (ex + dir*wide, o), heads for (ex, o + thin/2) and ends on (ex, o + thin)
        let pts = [(ex + dir * wide, o - thin * 0.5), (ex, o), (ex, o + thin * 0.25)];
        let swap = rng.chance(1, 3); // the same shape with x and y exchanged
        let f = |p: (f32, f32)| if swap { (F(p.1), F(p.0)) } else { (F(p.0), F(p.1)) };
        let (a, b, c) = (f(pts[0]), f(pts[1]), f(pts[2]));
        let mut segs = vec![Seg::M(a.0, a.1), Seg::Q(b.0, b.1, c.0, c.1)];
        if rng.chance(2, 3) {
            segs.push(Seg::Z);
        }
        return PathSpec::new(rng.chance(1, 3), segs);
    }
    let n = rng.usize(8);
    let mut segs = Vec::new();
    let mut last = (c07_coord(rng, w, identity), c07_coord(rng, h, identity));
    for _ in 0..n {
        let p = if rng.chance(1, 6) { last } else { (c07_coord(rng, w, identity), c07_coord(rng, h, identity)) };
        match rng.below(12) {
            0 | 1 => segs.push(Seg::M(F(p.0), F(p.1))),
            2 | 3 | 4 | 5 => segs.push(Seg::L(F(p.0), F(p.1))),
            6 | 7 => {
                // coincident control points now and then, or control points a few ulps away from
                // an end point (the extremum of the curve then lies within rounding noise of it)
                // k units in the last place away, staying finite and on the same side of zero
                let ulps = |v: f32, k: i32| {
                    let b = v.to_bits();
                    let mag = ((b & 0x7fff_ffff) as i64 + k as i64).max(0).min(0x7f7f_ffff);
                    f32::from_bits((b & 0x8000_0000) | mag as u32)
                };
                let c = match rng.below(6) {
                    0 | 1 => last,
                    2 => (ulps(p.0, rng.range(-3, 3)), ulps(p.1, rng.range(-3, 3))),
                    3 => (ulps(last.0, rng.range(-3, 3)), ulps(last.1, rng.range(-3, 3))),
                    _ => (c07_coord(rng, w, identity), c07_coord(rng, h, identity)),
                };
                segs.push(Seg::Q(F(c.0), F(c.1), F(p.0), F(p.1)));
            }
            8 | 9 => {
                let c1 = if rng.chance(1, 3) { last } else { (c07_coord(rng, w, identity), c07_coord(rng, h, identity)) };
                let c2 = if rng.chance(1, 3) { p } else { (c07_coord(rng, w, identity), c07_coord(rng, h, identity)) };
                segs.push(Seg::C(F(c1.0), F(c1.1), F(c2.0), F(c2.1), F(p.0), F(p.1)));
            }
            10 => segs.push(Seg::Z),
            _ => {
                let r = if identity { rng.f32_in(0., 60.) } else { rng.f32_in(0., 20.) };
                let cx = p.0.max(-200.).min(200.);
                let cy = p.1.max(-200.).min(200.);
                segs.push(Seg::Arc(F(cx), F(cy), F(if rng.chance(1, 6) { 0. } else { r }), F(rng.f32_in(-10., 10.)), F(rng.pick(&[0.0f32, 7., -7., 1., -2., 100., 6.2831855]))));
            }
        }
        last = p;
    }
    PathSpec::new(rng.chance(1, 3), segs)
}

/// rough upper bound of the arc length of the path in user space
fn path_length_bound(p: &PathSpec) -> f32 {
    let mut pts: Vec<(f32, f32)> = Vec::new();
    let mut extra = 0f32;
    for s in &p.segs {
        match s {
            Seg::M(x, y) | Seg::L(x, y) => pts.push((x.0, y.0)),
            Seg::Q(a, b, c, d) => {
                pts.push((a.0, b.0));
                pts.push((c.0, d.0));
            }
            Seg::C(a, b, c, d, e, g) => {
                pts.push((a.0, b.0));
                pts.push((c.0, d.0));
                pts.push((e.0, g.0));
            }
            Seg::Arc(x, y, r, _, _) => {
                pts.push((x.0 + r.0, y.0));
                pts.push((x.0 - r.0, y.0));
                extra += 7. * r.0.abs() + 2. * r.0.abs();
            }
            Seg::Rect(x, y, w, h) => {
                pts.push((x.0, y.0));
                pts.push((x.0 + w.0, y.0 + h.0));
                extra += 2. * (w.0.abs() + h.0.abs());
            }
            Seg::Z => {}
        }
    }
    let mut len = extra;
    for i in 1..pts.len() {
        len += (pts[i].0 - pts[i - 1].0).abs() + (pts[i].1 - pts[i - 1].1).abs();
    }
    // closing edges at most double it
    2. * len + 1.
}

fn c07_style(rng: &mut Rng, path: &PathSpec, identity: bool) -> StrokeSpec {
    let width = match rng.below(8) {
        0 => rng.pick(&[0.0f32, -0.0, -1., -1e-6, f32::NAN, -1e30, f32::NEG_INFINITY]),
        1 => rng.pick(&[1e-6f32, 0.01, 0.25]),
        _ => rng.f32_in(0.1, if identity { 40. } else { 20. }),
    };
    let miter_limit = match rng.below(6) {
        0 => 0.,
        1 => rng.pick(&[-1.0f32, f32::NAN, 1e-6]),
        _ => rng.f32_in(0., 4.),
    };
    let len = path_length_bound(path);
    // The statement allows up to 10^5 dashes. Sampled here: up to a few hundred (len is a generous
    // upper bound of the arc length), because every dash contributes tens of edges and the
    // rasteriser's edge insertion is quadratic in the number of edges starting on one sample
    // row - legitimate, bounded, but it would make single runs take seconds to minutes and
    // could not be told from a hang by any fixed step budget.
    let min_period = (len / 300.).max(0.05);
    let dash_array: Vec<f32> = match rng.below(14) {
        0 | 1 | 2 | 3 | 4 => vec![],
        5 => vec![0.],
        6 => vec![0., 0., 0.],
        7 => vec![-1., -2.],
        8 => vec![f32::NAN, 3.],
        9 => vec![3e38, 3e38],
        10 => vec![-5., 2.],
        11 => vec![2e38, 2e38, 2e38],
        _ => {
            let n = 1 + rng.usize(5);
            let mut v: Vec<f32> = (0..n).map(|_| if rng.chance(1, 5) { 0. } else { rng.f32_in(0.05, 30.) }).collect();
            let mut period: f32 = v.iter().sum();
            if n % 2 == 1 {
                period *= 2.;
            }
            if period < min_period {
                v[0] += min_period;
            }
            // every on/off pair should be at least min_period long as well
            for x in v.iter_mut() {
                if *x > 0. && *x < min_period / 4. {
                    *x = min_period / 4. + *x;
                }
            }
            v
        }
    };
    let dash_offset = match rng.below(8) {
        0 => rng.pick(&[f32::NAN, f32::INFINITY, f32::NEG_INFINITY, 1e30, -1e30, 3.4e38, -3.4e38]),
        1 => rng.f32_in(-1000., 0.),
        2 => 0.,
        _ => rng.f32_in(-50., 50.),
    };
    StrokeSpec { width: F(width), cap: rng.below(3) as u8, join: rng.below(3) as u8, miter_limit: F(miter_limit), dash_array: dash_array.into_iter().map(F).collect(), dash_offset: F(dash_offset) }
}

fn c07_alpha(rng: &mut Rng) -> f32 {
    if rng.chance(1, 4) {
        degenerate_f32(rng)
    } else {
        gen_alpha(rng)
    }
}

fn c07_opts(rng: &mut Rng) -> Opts {
    Opts { blend: gen_blend(rng, BlendProfile::Uniform), alpha: F(c07_alpha(rng)), aa: !rng.chance(1, 4) }
}

fn c07_clip_rect(rng: &mut Rng, w: i32, h: i32) -> [i32; 4] {
    if rng.chance(1, 3) {
        [gen_far(rng, w), gen_far(rng, h), gen_far(rng, w), gen_far(rng, h)]
    } else {
        gen_clip_rect(rng, w, h)
    }
}

pub fn gen_c07(rng: &mut Rng, thorough: bool) -> History {
    let ns = 1 + rng.usize(2);
    let surfaces: Vec<SurfSpec> = (0..ns).map(|_| if rng.chance(1, if thorough { 10 } else { 40 }) { gen_surface_big(rng, true) } else { gen_surface(rng, 64, true, true) }).collect();
    let mut em = Emit::new(surfaces);
    let n = 1 + rng.usize(if thorough { 40 } else { 25 });
    while em.steps.len() < n {
        let si = rng.usize(ns);
        let (w, h) = em.dims(si);
        let identity = is_identity(&em.shadows[si].ctm);
        let open = em.shadows[si].brackets.len();
        if rng.chance(1, 2500) && identity {
            // A dash marathon: the statement allows up to 10^5 dashes along an outline. Ordinary
            // histories stay at a few hundred (a long *horizontal* dashed line puts all its edges
            // on a few sample rows, where the rasteriser's edge insertion is quadratic); a zigzag
            // of steep lines spreads them over thousands of rows and is cheap: 66 000-98 000
            // dash intervals along one subpath.
            let k = 8 + rng.usize(5);
            let mut segs = Vec::new();
            let mut total = 0f32;
            let mut last = (-3800f32, rng.f32_in(-3800., 3800.));
            segs.push(Seg::M(F(last.0), F(last.1)));
            for i in 0..k {
                let x = if i % 2 == 0 { 3800. } else { -3800. };
                let mut y = rng.f32_in(-3800., 3800.);
                if (y - last.1).abs() < 2000. {
                    y = if last.1 > 0. { last.1 - 3000. } else { last.1 + 3000. };
                }
                total += ((x - last.0).powi(2) + (y - last.1).powi(2)).sqrt();
                segs.push(Seg::L(F(x), F(y)));
                last = (x, y);
            }
            let intervals = rng.f32_in(66000., 98000.);
            let d = total / intervals;
            let dash_array = if rng.chance(1, 2) { vec![F(d), F(d)] } else { vec![F(d * 1.5), F(d * 0.5)] };
            let style = StrokeSpec { width: F(rng.f32_in(0.2, 1.5)), cap: 2, join: 2, miter_limit: F(1.), dash_array, dash_offset: F(0.) };
            em.push(si, Op::Stroke { path: PathSpec::new(false, segs), src: SrcSpec { kind: gen_solid(rng), pre: None, user_xf: None }, style, opts: c07_opts(rng) });
            continue;
        }
        if rng.chance(1, 40) {
            // An episode under an extreme uniform scale, with all user-space lengths divided by
            // it: the device-space geometry is what it would be under the identity (inside the
            // stated range), while determinant, inverse and every "scaled by the transform"
            // quantity inside the library overflow or underflow. Solid sources only (the
            // fixed-point coordinates of images and gradients are C13's domain). The exponent is
            // bounded by 40: beyond roughly 2^60 the squares of user-space lengths leave the
            // range of f32 altogether (an endless loop in the dasher was seen at 2^-91, where a
            // segment's length evaluates to infinity - recorded in DESIGN.md, not explored).
            let k = if rng.chance(1, 2) { rng.range(14, 40) } else { -rng.range(14, 40) };
            // a third of the episodes are anisotropic (independent exponents for x and y, no
            // dashes, no arcs: a dash pattern or a circle has no single scale to be divided by)
            let aniso = rng.chance(1, 3);
            let j = if aniso { if rng.chance(1, 2) { rng.range(0, 30) } else { -rng.range(0, 30) } } else { k };
            let (sx, sy) = ((2.0f32).powi(k), (2.0f32).powi(j));
            em.push(si, Op::SetTransform(mk::unmat(&raqote::Transform::scale(sx, sy))));
            let m = 1 + rng.usize(3);
            for _ in 0..m {
                let solid = |rng: &mut Rng| SrcSpec { kind: gen_solid(rng), pre: None, user_xf: None };
                let plain = |p: &mut PathSpec| p.segs.retain(|s| !matches!(s, Seg::Arc(..)));
                // no strokes in the anisotropic episodes: stroke() flattens curves in user space with
                // a tolerance divided by sqrt|det|, which under a strongly anisotropic transform
                // is far too fine along the compressed axis - a million segments and half a
                // gigabyte for one cubic were seen at scale(2^37, 2^-20); recorded in DESIGN.md
                let mut op = match if aniso { 2 + rng.below(3) } else { rng.below(5) } {
                    0 | 1 => {
                        let path = c07_path(rng, w, h, false);
                        let style = c07_style(rng, &path, false);
                        Op::Stroke { path, src: solid(rng), style, opts: c07_opts(rng) }
                    }
                    2 => {
                        let mut path = c07_path(rng, w, h, false);
                        if aniso {
                            plain(&mut path);
                        }
                        Op::Fill { path, src: solid(rng), opts: c07_opts(rng) }
                    }
                    3 => {
                        let x = c07_coord(rng, w, false);
                        let y = c07_coord(rng, h, false);
                        Op::FillRect { rect: [F(x), F(y), F(rng.f32_in(-40., 40.)), F(rng.f32_in(-40., 40.))], src: solid(rng), opts: c07_opts(rng) }
                    }
                    _ => {
                        if em.shadows[si].clip_depth() >= 4 {
                            continue;
                        }
                        let mut path = c07_path(rng, w, h, false);
                        if aniso {
                            plain(&mut path);
                        }
                        Op::PushClip(path)
                    }
                };
                // the stroke's width is a user-space length: divided by the larger of the two
                // scales its device-space extent is at most what the generator chose
                scale_geometry_xy(&mut op, 1. / sx, 1. / sy, 1. / sx.max(sy));
                em.push(si, op);
            }
            em.push(si, Op::SetTransform(mat_identity()));
            continue;
        }
        let op = match rng.below(20) {
            0 | 1 => Op::SetTransform(c07_transform(rng)),
            2 => {
                if em.shadows[si].clip_depth() >= 4 {
                    continue;
                }
                Op::PushClipRect(c07_clip_rect(rng, w, h))
            }
            3 => {
                if em.shadows[si].clip_depth() >= 4 {
                    continue;
                }
                Op::PushClip(c07_path(rng, w, h, identity))
            }
            4 | 5 => {
                if open == 0 {
                    continue;
                }
                if rng.chance(1, 3) {
                    em.any_pop(rng, si);
                } else {
                    em.close_one(si);
                }
                continue;
            }
            6 => {
                if em.shadows[si].layer_depth() >= 3 {
                    continue;
                }
                let plain = rng.chance(1, 3);
                Op::PushLayer { opacity: F(c07_alpha(rng)), blend: if plain { BLEND_SRC_OVER } else { gen_blend(rng, BlendProfile::Uniform) }, plain }
            }
            7 | 8 | 9 => Op::Fill { path: c07_path(rng, w, h, identity), src: gen_source(rng, w, h, &SRC_ALL), opts: c07_opts(rng) },
            10 | 11 => {
                let path = c07_path(rng, w, h, identity);
                let style = c07_style(rng, &path, identity);
                Op::Stroke { path, src: gen_source(rng, w, h, &SRC_ALL), style, opts: c07_opts(rng) }
            }
            12 => {
                let x = c07_coord(rng, w, identity);
                let y = c07_coord(rng, h, identity);
                let r = if identity { 3900. } else { 300. };
                let rw = (c07_coord(rng, w, identity) - x).max(-r - x).min(r - x);
                let rh = (c07_coord(rng, h, identity) - y).max(-r - y).min(r - y);
                Op::FillRect { rect: [F(x), F(y), F(rw), F(rh)], src: gen_source(rng, w, h, &SRC_ALL), opts: c07_opts(rng) }
            }
            13 => {
                let p = valid_pixel(rng);
                Op::Clear { argb: [(p >> 24) as u8, (p >> 16) as u8, (p >> 8) as u8, p as u8] }
            }
            14 => {
                let (mut x, mut y, mw, mh, data) = gen_mask(rng, w, h);
                if rng.chance(1, 4) {
                    x = gen_far(rng, w);
                    y = gen_far(rng, h);
                }
                Op::Mask { src: gen_source(rng, w, h, &SRC_ALL), x, y, w: mw, h: mh, data }
            }
            15 => Op::DrawImageAt { x: F(c07_coord(rng, w, identity).max(-300.).min(300.)), y: F(c07_coord(rng, h, identity).max(-300.).min(300.)), img: gen_image(rng), opts: c07_opts(rng) },
            16 => Op::DrawImageSized {
                w: F(if rng.chance(1, 8) { rng.pick(&[0.0f32, -3., 0.001]) } else { rng.f32_in(0.5, 100.) }),
                h: F(if rng.chance(1, 8) { rng.pick(&[0.0f32, -3., 0.001]) } else { rng.f32_in(0.5, 100.) }),
                x: F(c07_coord(rng, w, identity).max(-200.).min(200.)),
                y: F(c07_coord(rng, h, identity).max(-200.).min(200.)),
                img: gen_image(rng),
                opts: c07_opts(rng),
            },
            17 => {
                if ns < 2 {
                    continue;
                }
                let from = (si + 1) % ns;
                let (sw, sh) = em.dims(from);
                let mut op = gen_transfer(rng, from, sw, sh, w, h, true);
                if let Op::BlendSurfaceAlpha { alpha, .. } = &mut op {
                    *alpha = F(c07_alpha(rng));
                }
                op
            }
            18 => Op::PathQuery { path: c07_path(rng, w, h, true), tol: F(rng.pick(&[0.1f32, 0.01, 1., 10., 0.25])), x: F(c07_coord(rng, w, true)), y: F(c07_coord(rng, h, true)) },
            _ => {
                if em.shadows[si].layer_depth() == 0 {
                    Op::Restart(rng.below(4) as u8)
                } else {
                    continue;
                }
            }
        };
        em.push(si, op);
    }
    em.close_all();
    em.finish(0, 0, 2_000_000_000, "c07".to_string())
}

/// Last line of defence against generator mistakes: coordinates must be finite and inside the
/// working range the statement gives (a NaN coordinate is *outside* C07's domain; reporting what
/// happens there would be a false alarm). Such a history is skipped and counted.
fn c07_in_domain(h: &History) -> bool {
    // device space: the user-space point mapped by the transform in force (f64)
    let mut ctm: Vec<Mat> = h.surfaces.iter().map(|_| mat_identity()).collect();
    for s in &h.steps {
        if s.surf >= ctm.len() {
            continue;
        }
        let t = ctm[s.surf];
        let dev = |x: f32, y: f32| -> bool {
            let (x, y) = (x as f64, y as f64);
            let px = x * t[0].0 as f64 + y * t[2].0 as f64 + t[4].0 as f64;
            let py = x * t[1].0 as f64 + y * t[3].0 as f64 + t[5].0 as f64;
            px.is_finite() && py.is_finite() && px.abs() <= 4000.5 && py.abs() <= 4000.5
        };
        let user = |x: f32, y: f32| x.is_finite() && y.is_finite() && x.abs() <= 4000. && y.abs() <= 4000.;
        let path_ok = |p: &PathSpec, ok: &dyn Fn(f32, f32) -> bool| {
            p.segs.iter().all(|s| match s {
                Seg::M(x, y) | Seg::L(x, y) => ok(x.0, y.0),
                Seg::Q(a, b, c, d) => ok(a.0, b.0) && ok(c.0, d.0),
                Seg::C(a, b, c, d, e, g) => ok(a.0, b.0) && ok(c.0, d.0) && ok(e.0, g.0),
                Seg::Z => true,
                Seg::Arc(x, y, r, a0, sw) => {
                    a0.0.is_finite() && sw.0.is_finite() && r.0.is_finite() && ok(x.0 - r.0, y.0 - r.0) && ok(x.0 + r.0, y.0 - r.0) && ok(x.0 - r.0, y.0 + r.0) && ok(x.0 + r.0, y.0 + r.0)
                }
                Seg::Rect(x, y, w, hh) => ok(x.0, y.0) && ok(x.0 + w.0, y.0) && ok(x.0, y.0 + hh.0) && ok(x.0 + w.0, y.0 + hh.0),
            })
        };
        let ok = match &s.op {
            Op::Fill { path, .. } | Op::PushClip(path) => path_ok(path, &dev),
            // hit testing and flattening do not look at the transform
            Op::PathQuery { path, .. } => path_ok(path, &user),
            Op::Stroke { path, style, .. } => path_ok(path, &dev) && style.dash_array.iter().all(|d| !d.0.is_infinite()),
            Op::FillRect { rect, .. } => dev(rect[0].0, rect[1].0) && dev(rect[0].0 + rect[2].0, rect[1].0) && dev(rect[0].0, rect[1].0 + rect[3].0) && dev(rect[0].0 + rect[2].0, rect[1].0 + rect[3].0),
            Op::SetTransform(m) => m.iter().all(|v| v.0.is_finite()),
            Op::DrawImageAt { x, y, .. } => dev(x.0, y.0),
            Op::DrawImageSized { w, h: hh, x, y, .. } => dev(x.0, y.0) && dev(x.0 + w.0, y.0 + hh.0),
            _ => true,
        };
        if !ok {
            return false;
        }
        if let Op::SetTransform(m) = &s.op {
            ctm[s.surf] = *m;
        }
    }
    true
}

pub fn run_c07(h: &History, st: &mut Stats) -> Outcome {
    if !c07_in_domain(h) {
        st.count("skipped_generator_left_the_stated_domain");
        return Outcome::Ok;
    }
    raqote::verif::set_buggify(0);
    let mut p = World::new(&h.surfaces);
    let budget = h.tick_budget;
    let surface_bytes: usize = h.surfaces.iter().map(|s| (s.w * s.h) as usize * 4).sum();
    for (i, step) in h.steps.iter().enumerate() {
        crate::alloc::reset_max();
        let r = exec(&mut p, step, budget, st);
        let biggest = crate::alloc::max_request();
        st.max("largest_single_allocation", biggest as u64);
        if let Err(pi) = r {
            let oracle = if pi.budget_site.is_some() { "c07.hang" } else { "c07.panic" };
            return Outcome::Violation(Violation {
                oracle,
                step: i,
                detail: format!("{} [{}]: {}", step.op.name(), step.op.blend().map(|b| BLEND_NAMES[b as usize % 28]).unwrap_or("-"), panic_desc(&pi)),
                panic: Some(pi),
            });
        }
        // a dashed outline of up to 10^5 dashes legitimately needs tens of megabytes of path
        // data; what is flagged is a request out of all proportion (the capacity-overflow class)
        if biggest > 64 * surface_bytes + (256 << 20) {
            return viol("c07.absurd-allocation", i, format!("{} asked the allocator for {} bytes in one request (surfaces hold {} bytes)", step.op.name(), biggest, surface_bytes));
        }
    }
    st.nontrivial_flag = h.steps.len() >= 2;
    Outcome::Ok
}
