//! Turns the plain-data operations of `ops` into real raqote calls.

use crate::ops::*;
use raqote::*;
use std::cell::RefCell;
use std::panic::{catch_unwind, AssertUnwindSafe};

pub const BLENDS: [BlendMode; 28] = [
    BlendMode::Dst, BlendMode::Src, BlendMode::Clear, BlendMode::SrcOver, BlendMode::DstOver, BlendMode::SrcIn,
    BlendMode::DstIn, BlendMode::SrcOut, BlendMode::DstOut, BlendMode::SrcAtop, BlendMode::DstAtop, BlendMode::Xor,
    BlendMode::Add, BlendMode::Screen, BlendMode::Overlay, BlendMode::Darken, BlendMode::Lighten,
    BlendMode::ColorDodge, BlendMode::ColorBurn, BlendMode::HardLight, BlendMode::SoftLight, BlendMode::Difference,
    BlendMode::Exclusion, BlendMode::Multiply, BlendMode::Hue, BlendMode::Saturation, BlendMode::Color,
    BlendMode::Luminosity,
];

pub fn blend_mode(i: u8) -> BlendMode {
    BLENDS[(i % 28) as usize]
}

pub fn mat(m: &Mat) -> Transform {
    Transform::new(m[0].0, m[1].0, m[2].0, m[3].0, m[4].0, m[5].0)
}

pub fn unmat(t: &Transform) -> Mat {
    [F(t.m11), F(t.m12), F(t.m21), F(t.m22), F(t.m31), F(t.m32)]
}

pub fn build_path(p: &PathSpec) -> Path {
    let mut pb = PathBuilder::new();
    for s in &p.segs {
        match *s {
            Seg::M(x, y) => pb.move_to(x.0, y.0),
            Seg::L(x, y) => pb.line_to(x.0, y.0),
            Seg::Q(a, b, c, d) => pb.quad_to(a.0, b.0, c.0, d.0),
            Seg::C(a, b, c, d, e, g) => pb.cubic_to(a.0, b.0, c.0, d.0, e.0, g.0),
            Seg::Z => pb.close(),
            Seg::Arc(x, y, r, a0, sw) => pb.arc(x.0, y.0, r.0, a0.0, sw.0),
            Seg::Rect(x, y, w, h) => pb.rect(x.0, y.0, w.0, h.0),
        }
    }
    let mut path = pb.finish();
    path.winding = if p.evenodd { Winding::EvenOdd } else { Winding::NonZero };
    if let Some(tol) = &p.flatten {
        path = path.flatten(tol.0);
    }
    if let Some(style) = &p.stroke_first {
        // the user-space outline exactly as DrawTarget::stroke builds it for a polyline
        let style = build_style(style);
        if !style.dash_array.is_empty() {
            path = raqote::verif_dash_path(&path, &style.dash_array, style.dash_offset);
        }
        path = stroke_to_path(&path, &style);
    }
    if let Some(xf) = &p.xf {
        path = path.transform(&mat(xf));
    }
    path
}

pub fn build_gradient(stops: &[Stop]) -> Gradient {
    Gradient {
        stops: stops
            .iter()
            .map(|s| GradientStop { position: s.pos.0, color: Color::new(s.argb[0], s.argb[1], s.argb[2], s.argb[3]) })
            .collect(),
    }
}

pub fn spread(i: u8) -> Spread {
    match i % 3 {
        0 => Spread::Pad,
        1 => Spread::Reflect,
        _ => Spread::Repeat,
    }
}

pub fn image<'a>(img: &'a ImgSpec) -> Image<'a> {
    Image { width: img.w, height: img.h, data: &img.data }
}

pub fn solid_of(kind: &SrcKind) -> Option<SolidSource> {
    match *kind {
        SrcKind::Solid { a, r, g, b } => Some(SolidSource { r, g, b, a }),
        SrcKind::SolidUnpremul { a, r, g, b } => Some(SolidSource::from_unpremultiplied_argb(a, r, g, b)),
        SrcKind::SolidColor { a, r, g, b } => Some(SolidSource::from(Color::new(a, r, g, b))),
        _ => None,
    }
}

pub fn build_source<'a>(s: &'a SrcSpec) -> Source<'a> {
    let pt = |p: &[F; 2]| Point::new(p[0].0, p[1].0);
    let src = match &s.kind {
        SrcKind::Solid { .. } | SrcKind::SolidUnpremul { .. } => Source::Solid(solid_of(&s.kind).unwrap()),
        SrcKind::SolidColor { a, r, g, b } => Source::from(Color::new(*a, *r, *g, *b)),
        SrcKind::Image { img, repeat, bilinear, xf } => Source::Image(
            image(img),
            if *repeat { ExtendMode::Repeat } else { ExtendMode::Pad },
            if *bilinear { FilterMode::Bilinear } else { FilterMode::Nearest },
            mat(xf),
        ),
        SrcKind::Linear { stops, spread: sp, start, end } => {
            Source::new_linear_gradient(build_gradient(stops), pt(start), pt(end), spread(*sp))
        }
        SrcKind::Radial { stops, spread: sp, center, radius } => {
            Source::new_radial_gradient(build_gradient(stops), pt(center), radius.0, spread(*sp))
        }
        SrcKind::TwoCircle { stops, spread: sp, c1, r1, c2, r2 } => {
            Source::new_two_circle_radial_gradient(build_gradient(stops), pt(c1), r1.0, pt(c2), r2.0, spread(*sp))
        }
        SrcKind::Sweep { stops, spread: sp, center, a0, a1 } => {
            Source::new_sweep_gradient(build_gradient(stops), pt(center), a0.0, a1.0, spread(*sp))
        }
    };
    let compose = |src: Source<'a>, pre: &Mat| -> Source<'a> {
        let pre = mat(pre);
        match src {
            Source::Solid(c) => Source::Solid(c),
            Source::Image(i, e, f, t) => Source::Image(i, e, f, pre.then(&t)),
            Source::RadialGradient(g, sp, t) => Source::RadialGradient(g, sp, pre.then(&t)),
            Source::TwoCircleRadialGradient(g, sp, c1, r1, c2, r2, t) => {
                Source::TwoCircleRadialGradient(g, sp, c1, r1, c2, r2, pre.then(&t))
            }
            Source::LinearGradient(g, sp, t) => Source::LinearGradient(g, sp, pre.then(&t)),
            Source::SweepGradient(g, sp, a0, a1, t) => Source::SweepGradient(g, sp, a0, a1, pre.then(&t)),
        }
    };
    // first the source's own (user supplied) transform, then - outermost - the twin's CTM^-1, so
    // that both executions associate the matrix products the same way
    let src = match &s.user_xf {
        None => src,
        Some(u) => compose(src, u),
    };
    match &s.pre {
        None => src,
        Some(pre) => compose(src, pre),
    }
}

pub fn build_opts(o: &Opts) -> DrawOptions {
    DrawOptions {
        blend_mode: blend_mode(o.blend),
        alpha: o.alpha.0,
        antialias: if o.aa { AntialiasMode::Gray } else { AntialiasMode::None },
    }
}

pub fn build_style(s: &StrokeSpec) -> StrokeStyle {
    StrokeStyle {
        width: s.width.0,
        cap: match s.cap % 3 {
            0 => LineCap::Round,
            1 => LineCap::Square,
            _ => LineCap::Butt,
        },
        join: match s.join % 3 {
            0 => LineJoin::Round,
            1 => LineJoin::Miter,
            _ => LineJoin::Bevel,
        },
        miter_limit: s.miter_limit.0,
        dash_array: s.dash_array.iter().map(|d| d.0).collect(),
        dash_offset: s.dash_offset.0,
    }
}

pub fn irect(r: &[i32; 4]) -> IntRect {
    IntRect::new(IntPoint::new(r[0], r[1]), IntPoint::new(r[2], r[3]))
}

/// A caller-supplied backing store: the code's own seam for pixel storage.
pub struct Wrap(pub Vec<u32>);
impl AsRef<[u32]> for Wrap {
    fn as_ref(&self) -> &[u32] {
        &self.0
    }
}
impl AsMut<[u32]> for Wrap {
    fn as_mut(&mut self) -> &mut [u32] {
        &mut self.0
    }
}

pub enum Surf {
    V(DrawTarget),
    B(DrawTarget<Wrap>),
    /// transient state while a restart is in progress
    Gone,
}

#[macro_export]
macro_rules! with_dt {
    ($surf:expr, $dt:ident => $body:expr) => {
        match $surf {
            $crate::mk::Surf::V($dt) => $body,
            $crate::mk::Surf::B($dt) => $body,
            $crate::mk::Surf::Gone => unreachable!("surface gone"),
        }
    };
}

impl Surf {
    pub fn new_with(w: i32, h: i32, pixels: &[u32]) -> Surf {
        let mut dt = DrawTarget::new(w, h);
        dt.get_data_mut().copy_from_slice(pixels);
        Surf::V(dt)
    }
    pub fn pixels(&self) -> &[u32] {
        with_dt!(self, dt => dt.get_data())
    }
    pub fn w(&self) -> i32 {
        with_dt!(self, dt => dt.width())
    }
    pub fn h(&self) -> i32 {
        with_dt!(self, dt => dt.height())
    }
    pub fn transform(&self) -> Transform {
        with_dt!(self, dt => *dt.get_transform())
    }
    pub fn idle(&self) -> bool {
        with_dt!(self, dt => dt.verif_rasterizer_idle())
    }
    pub fn clip_depth(&self) -> usize {
        with_dt!(self, dt => dt.verif_clip_depth())
    }
    pub fn layer_depth(&self) -> usize {
        with_dt!(self, dt => dt.verif_layer_depth())
    }
}

#[derive(Clone, Debug, PartialEq)]
pub enum Bracket {
    ClipRect([i32; 4]),
    ClipPath(PathSpec),
    Layer,
}

/// What the harness knows about the visible non-pixel state of one target
/// (needed to re-establish it on a fresh target).
#[derive(Clone, Debug)]
pub struct Shadow {
    pub ctm: Mat,
    /// open brackets in push order, each with the CTM that was current at the push
    pub brackets: Vec<(Bracket, Mat)>,
}

impl Shadow {
    pub fn new() -> Shadow {
        Shadow { ctm: mat_identity(), brackets: Vec::new() }
    }
    pub fn layer_depth(&self) -> usize {
        self.brackets.iter().filter(|b| matches!(b.0, Bracket::Layer)).count()
    }
    pub fn clip_depth(&self) -> usize {
        self.brackets.len() - self.layer_depth()
    }
}

#[derive(Clone, Debug, Default)]
pub struct PngOutcome {
    pub returned_ok: bool,
    pub err: String,
    /// bytes found on disk afterwards (None: no regular file there)
    pub file: Option<Vec<u8>>,
}

#[derive(Clone, Debug, Default)]
pub struct ViewsOutcome {
    pub words: Vec<u32>,
    pub bytes: Vec<u8>,
    pub words_via_mut: Vec<u32>,
    pub bytes_via_mut: Vec<u8>,
}

pub struct World {
    pub surfs: Vec<Surf>,
    pub shadows: Vec<Shadow>,
    pub io_dir: String,
    pub last_png: Option<PngOutcome>,
    pub last_views: Option<ViewsOutcome>,
    /// buffer handed back by the last Restart (what into_vec / into_inner returned)
    pub last_restart_buf: Option<Vec<u32>>,
}

impl World {
    pub fn new(surfaces: &[SurfSpec]) -> World {
        World {
            surfs: surfaces.iter().map(|s| Surf::new_with(s.w, s.h, &s.pixels)).collect(),
            shadows: surfaces.iter().map(|_| Shadow::new()).collect(),
            io_dir: String::new(),
            last_png: None,
            last_views: None,
            last_restart_buf: None,
        }
    }

    /// A fresh target with the given pixels and the visible state described by `shadow`
    /// (clip stack and transform; layers cannot be re-established from outside).
    pub fn fresh_like(w: i32, h: i32, pixels: &[u32], shadow: &Shadow) -> Surf {
        let mut dt = DrawTarget::new(w, h);
        dt.get_data_mut().copy_from_slice(pixels);
        reestablish(&mut dt, shadow);
        Surf::V(dt)
    }

    /// Executes one step. Panics propagate to the caller (use `guarded`).
    pub fn apply(&mut self, step: &Step) {
        let si = step.surf;
        if si >= self.surfs.len() {
            return;
        }
        match &step.op {
            Op::CopySurface { from, rect, dst } => self.transfer(si, *from, rect, dst, 0, 0, 0.),
            Op::BlendSurface { from, rect, dst, blend } => self.transfer(si, *from, rect, dst, 1, *blend, 0.),
            Op::BlendSurfaceAlpha { from, rect, dst, alpha } => self.transfer(si, *from, rect, dst, 2, 0, alpha.0),
            Op::Restart(kind) => self.restart(si, *kind),
            Op::Resync => {}
            Op::WritePng { fault } => self.write_png(si, fault),
            Op::ReadViews => {
                let out = with_dt!(&mut self.surfs[si], dt => {
                    let words = dt.get_data().to_vec();
                    let bytes = dt.get_data_u8().to_vec();
                    let words_via_mut = dt.get_data_mut().to_vec();
                    let bytes_via_mut = dt.get_data_u8_mut().to_vec();
                    ViewsOutcome { words, bytes, words_via_mut, bytes_via_mut }
                });
                self.last_views = Some(out);
            }
            op => {
                let shadow = &mut self.shadows[si];
                with_dt!(&mut self.surfs[si], dt => apply_simple(dt, shadow, op));
            }
        }
    }

    fn transfer(&mut self, si: usize, from: usize, rect: &[i32; 4], dst: &[i32; 2], what: u8, blend: u8, alpha: f32) {
        if from >= self.surfs.len() || from == si {
            return;
        }
        let (s, d) = if from < si {
            let (l, r) = self.surfs.split_at_mut(si);
            (&l[from], &mut r[0])
        } else {
            let (l, r) = self.surfs.split_at_mut(from);
            (&r[0], &mut l[si])
        };
        let r = irect(rect);
        let p = IntPoint::new(dst[0], dst[1]);
        macro_rules! go {
            ($s:ident, $d:ident) => {
                match what {
                    0 => $d.copy_surface($s, r, p),
                    1 => $d.blend_surface($s, r, p, blend_mode(blend)),
                    _ => $d.blend_surface_with_alpha($s, r, p, alpha),
                }
            };
        }
        match (s, d) {
            (Surf::V(s), Surf::V(d)) => go!(s, d),
            (Surf::V(s), Surf::B(d)) => go!(s, d),
            (Surf::B(s), Surf::V(d)) => go!(s, d),
            (Surf::B(s), Surf::B(d)) => go!(s, d),
            _ => unreachable!(),
        }
    }

    fn restart(&mut self, si: usize, kind: u8) {
        let shadow = self.shadows[si].clone();
        if shadow.layer_depth() > 0 {
            // layer buffers are not visible from outside: cannot be re-established
            return;
        }
        let old = std::mem::replace(&mut self.surfs[si], Surf::Gone);
        let (w, h) = match &old {
            Surf::V(d) => (d.width(), d.height()),
            Surf::B(d) => (d.width(), d.height()),
            Surf::Gone => unreachable!(),
        };
        let buf: Vec<u32> = match kind % 6 {
            3 => {
                let v = match &old {
                    Surf::V(d) => d.get_data().to_vec(),
                    Surf::B(d) => d.get_data().to_vec(),
                    Surf::Gone => unreachable!(),
                };
                drop(old);
                v
            }
            1 | 2 => match old {
                Surf::V(d) => d.into_inner(),
                Surf::B(d) => d.into_inner().0,
                Surf::Gone => unreachable!(),
            },
            _ => match old {
                Surf::V(d) => d.into_vec(),
                Surf::B(d) => d.into_inner().0,
                Surf::Gone => unreachable!(),
            },
        };
        self.last_restart_buf = Some(buf.clone());
        let mut buf = buf;
        let mut new = match kind % 6 {
            4 => {
                // a recycled vector that is longer than needed: from_vec must cut it down
                let extra = 1 + (buf.len() % 5);
                for k in 0..extra {
                    buf.push(0xdead_0000 | k as u32);
                }
                Surf::V(DrawTarget::from_vec(w, h, buf))
            }
            5 => {
                // a recycled vector that is shorter than needed: from_vec extends it with zeros
                let keep = buf.len() * 2 / 3;
                buf.truncate(keep);
                Surf::V(DrawTarget::from_vec(w, h, buf))
            }
            0 => Surf::V(DrawTarget::from_vec(w, h, buf)),
            1 => Surf::V(DrawTarget::from_backing(w, h, buf)),
            2 => Surf::B(DrawTarget::from_backing(w, h, Wrap(buf))),
            _ => {
                let mut dt = DrawTarget::new(w, h);
                dt.get_data_mut().copy_from_slice(&buf);
                Surf::V(dt)
            }
        };
        with_dt!(&mut new, dt => reestablish(dt, &shadow));
        self.surfs[si] = new;
    }

    fn write_png(&mut self, si: usize, fault: &IoFault) {
        let pid = std::process::id();
        let dir = format!("{}/{}", self.io_dir, pid);
        let _ = std::fs::create_dir_all(&dir);
        let normal = format!("{}/out.png", dir);
        let _ = std::fs::remove_file(&normal);
        if let IoFault::Overwrite = fault {
            // what an earlier, larger export would have left there
            let _ = std::fs::write(&normal, vec![0x5au8; 70_000]);
        }
        let path = match fault {
            IoFault::None | IoFault::FileLimit(_) | IoFault::Overwrite => normal.clone(),
            IoFault::DevNull => "/dev/null".to_string(),
            IoFault::DevFull => "/dev/full".to_string(),
            IoFault::NoDir => format!("{}/missing-dir/out.png", dir),
            IoFault::IsDir => dir.clone(),
        };
        let mut old = libc::rlimit { rlim_cur: 0, rlim_max: 0 };
        if let IoFault::FileLimit(n) = fault {
            unsafe {
                libc::getrlimit(libc::RLIMIT_FSIZE, &mut old);
                let new = libc::rlimit { rlim_cur: *n as libc::rlim_t, rlim_max: old.rlim_max };
                libc::setrlimit(libc::RLIMIT_FSIZE, &new);
            }
        }
        let res = catch_unwind(AssertUnwindSafe(|| with_dt!(&self.surfs[si], dt => dt.write_png(&path))));
        if let IoFault::FileLimit(_) = fault {
            unsafe {
                libc::setrlimit(libc::RLIMIT_FSIZE, &old);
            }
        }
        let res = match res {
            Ok(r) => r,
            Err(p) => std::panic::resume_unwind(p),
        };
        let file = match fault {
            IoFault::None | IoFault::FileLimit(_) | IoFault::Overwrite => std::fs::read(&normal).ok(),
            _ => None,
        };
        let _ = std::fs::remove_file(&normal);
        let out = PngOutcome {
            returned_ok: res.is_ok(),
            err: match &res {
                Ok(()) => String::new(),
                Err(e) => format!("{}", e),
            },
            file,
        };
        self.last_png = Some(out);
    }
}

/// Replays the open clip brackets (each under the CTM of its push) and sets the CTM.
pub fn reestablish<B: AsRef<[u32]> + AsMut<[u32]>>(dt: &mut DrawTarget<B>, shadow: &Shadow) {
    for (b, ctm) in &shadow.brackets {
        dt.set_transform(&mat(ctm));
        match b {
            Bracket::ClipRect(r) => dt.push_clip_rect(irect(r)),
            Bracket::ClipPath(p) => dt.push_clip(&build_path(p)),
            Bracket::Layer => {}
        }
    }
    dt.set_transform(&mat(&shadow.ctm));
}

/// Does the drawing call `op` panic all by itself - on a fresh, transparent target of the same size
/// under the transform `ctm`, with no clip and no layer? (Geometry beyond the library's working
/// range does, whatever state the target is in.)
pub fn panics_on_plain_target(w: i32, h: i32, ctm: &Mat, op: &Op, budget: u64) -> bool {
    guarded(budget, || {
        let mut dt = DrawTarget::new(w, h);
        dt.set_transform(&mat(ctm));
        let mut sh = Shadow::new();
        sh.ctm = *ctm;
        apply_simple(&mut dt, &mut sh, op);
    })
    .is_err()
}

/// The drawing call `op` executed on a fresh target that holds `pixels` and the clip stack and
/// transform of `shadow` (no layers), with one more clip on top: a clip *path* that covers the
/// whole surface (a pixel-aligned rectangle reaching beyond it). Returns the resulting pixels.
pub fn draw_under_covering_clip_path(w: i32, h: i32, pixels: &[u32], shadow: &Shadow, op: &Op) -> Vec<u32> {
    let mut dt = DrawTarget::new(w, h);
    dt.get_data_mut().copy_from_slice(pixels);
    reestablish(&mut dt, shadow);
    dt.set_transform(&Transform::identity());
    let mut pb = PathBuilder::new();
    pb.rect(-2., -2., (w + 4) as f32, (h + 4) as f32);
    dt.push_clip(&pb.finish());
    dt.set_transform(&mat(&shadow.ctm));
    let mut sh = shadow.clone();
    apply_simple(&mut dt, &mut sh, op);
    dt.into_vec()
}

/// Every op that involves exactly one target and no environment.
pub fn apply_simple<B: AsRef<[u32]> + AsMut<[u32]>>(dt: &mut DrawTarget<B>, shadow: &mut Shadow, op: &Op) {
    match op {
        Op::SetTransform(m) => {
            dt.set_transform(&mat(m));
            shadow.ctm = *m;
        }
        Op::PushClipRect(r) => {
            dt.push_clip_rect(irect(r));
            shadow.brackets.push((Bracket::ClipRect(*r), shadow.ctm));
        }
        Op::PushClip(p) => {
            // record first: a panic inside must not leave the shadow behind the target
            dt.push_clip(&build_path(p));
            shadow.brackets.push((Bracket::ClipPath(p.clone()), shadow.ctm));
        }
        Op::PopClip => {
            // raqote pops its clip stack whatever the layer stack looks like: remove the most
            // recently pushed clip bracket (not necessarily the top one)
            if let Some(i) = shadow.brackets.iter().rposition(|b| !matches!(b.0, Bracket::Layer)) {
                dt.pop_clip();
                shadow.brackets.remove(i);
            }
        }
        Op::PushLayer { opacity, blend, plain } => {
            if *plain {
                dt.push_layer(opacity.0);
            } else {
                dt.push_layer_with_blend(opacity.0, blend_mode(*blend));
            }
            shadow.brackets.push((Bracket::Layer, shadow.ctm));
        }
        Op::PopLayer => {
            if let Some(i) = shadow.brackets.iter().rposition(|b| matches!(b.0, Bracket::Layer)) {
                shadow.brackets.remove(i);
                dt.pop_layer();
            }
        }
        Op::Fill { path, src, opts } => dt.fill(&build_path(path), &build_source(src), &build_opts(opts)),
        Op::FillRect { rect, src, opts } => {
            dt.fill_rect(rect[0].0, rect[1].0, rect[2].0, rect[3].0, &build_source(src), &build_opts(opts))
        }
        Op::Stroke { path, src, style, opts } => {
            dt.stroke(&build_path(path), &build_source(src), &build_style(style), &build_opts(opts))
        }
        Op::Clear { argb } => dt.clear(SolidSource { a: argb[0], r: argb[1], g: argb[2], b: argb[3] }),
        Op::Mask { src, x, y, w, h, data } => {
            let m = Mask { width: *w, height: *h, data: data.clone() };
            dt.mask(&build_source(src), *x, *y, &m)
        }
        Op::DrawImageAt { x, y, img, opts } => dt.draw_image_at(x.0, y.0, &image(img), &build_opts(opts)),
        Op::DrawImageSized { w, h, x, y, img, opts } => {
            dt.draw_image_with_size_at(w.0, h.0, x.0, y.0, &image(img), &build_opts(opts))
        }
        Op::Poke32 { idx, val } => {
            let d = dt.get_data_mut();
            if !d.is_empty() {
                let i = idx % d.len();
                d[i] = *val;
            }
        }
        Op::Poke8 { idx, val } => {
            let d = dt.get_data_u8_mut();
            if !d.is_empty() {
                let i = idx % d.len();
                d[i] = *val;
            }
        }
        Op::PathQuery { path, tol, x, y } => {
            let p = build_path(path);
            let flat = p.flatten(tol.0);
            let _ = flat.ops.len();
            let _ = p.contains_point(tol.0, x.0, y.0);
        }
        Op::CopySurface { .. }
        | Op::BlendSurface { .. }
        | Op::BlendSurfaceAlpha { .. }
        | Op::Restart(_)
        | Op::Resync
        | Op::WritePng { .. }
        | Op::ReadViews => unreachable!("handled by World::apply"),
    }
}

// ---------------------------------------------------------------------------
// panic capture

#[derive(Clone, Debug)]
pub struct PanicInfo {
    pub location: String,
    pub message: String,
    /// Some(site name) when the payload is the step-budget overrun of the verif hooks
    pub budget_site: Option<String>,
    pub ticks: u64,
}

thread_local! {
    static LAST_PANIC: RefCell<Option<(String, String)>> = RefCell::new(None);
}

pub fn install_panic_hook() {
    std::panic::set_hook(Box::new(|info| {
        let loc = info.location().map(|l| format!("{}:{}", l.file(), l.line())).unwrap_or_default();
        let msg = if let Some(s) = info.payload().downcast_ref::<&str>() {
            s.to_string()
        } else if let Some(s) = info.payload().downcast_ref::<String>() {
            s.clone()
        } else if info.payload().downcast_ref::<raqote::verif::BudgetExceeded>().is_some() {
            "step budget exceeded".to_string()
        } else {
            "<non-string payload>".to_string()
        };
        if std::env::var_os("SIM_LOUD").is_some() {
            eprintln!("panic at {}: {}", loc, msg);
        }
        LAST_PANIC.with(|p| *p.borrow_mut() = Some((loc, msg)));
    }));
}

/// Runs `f` under the step budget; a panic is turned into a value.
pub fn guarded<R>(tick_budget: u64, f: impl FnOnce() -> R) -> Result<R, PanicInfo> {
    raqote::verif::begin_op(tick_budget);
    let r = catch_unwind(AssertUnwindSafe(f));
    let ticks = raqote::verif::ticks();
    raqote::verif::begin_op(u64::MAX);
    match r {
        Ok(v) => Ok(v),
        Err(payload) => {
            let (location, message) = LAST_PANIC.with(|p| p.borrow_mut().take()).unwrap_or_default();
            let budget_site = payload
                .downcast_ref::<raqote::verif::BudgetExceeded>()
                .map(|b| format!("{:?}", b.site));
            Err(PanicInfo { location, message, budget_site, ticks })
        }
    }
}

/// strips the machine specific prefix of a panic location so that it is stable
pub fn short_location(loc: &str) -> String {
    if let Some(i) = loc.find("/registry/src/") {
        let rest = &loc[i + "/registry/src/".len()..];
        // drop the index directory name
        if let Some(j) = rest.find('/') {
            return rest[j + 1..].to_string();
        }
    }
    if let Some(i) = loc.find("/repo/") {
        return loc[i + 1..].to_string();
    }
    loc.to_string()
}
