//! Counting allocator: records the largest single request (allocation *size* is observable;
//! allocation *failure* aborts a Rust process and no given property speaks about it).

use std::alloc::{GlobalAlloc, Layout, System};
use std::sync::atomic::{AtomicUsize, Ordering};

pub struct Counting;

static MAX_REQUEST: AtomicUsize = AtomicUsize::new(0);

unsafe impl GlobalAlloc for Counting {
    unsafe fn alloc(&self, l: Layout) -> *mut u8 {
        note(l.size());
        System.alloc(l)
    }
    unsafe fn alloc_zeroed(&self, l: Layout) -> *mut u8 {
        note(l.size());
        System.alloc_zeroed(l)
    }
    unsafe fn realloc(&self, p: *mut u8, l: Layout, new_size: usize) -> *mut u8 {
        note(new_size);
        System.realloc(p, l, new_size)
    }
    unsafe fn dealloc(&self, p: *mut u8, l: Layout) {
        System.dealloc(p, l)
    }
}

#[inline]
fn note(size: usize) {
    if size > MAX_REQUEST.load(Ordering::Relaxed) {
        MAX_REQUEST.store(size, Ordering::Relaxed);
    }
}

pub fn reset_max() {
    MAX_REQUEST.store(0, Ordering::Relaxed);
}

pub fn max_request() -> usize {
    MAX_REQUEST.load(Ordering::Relaxed)
}
