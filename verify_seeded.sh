#!/bin/bash
# verify_seeded.sh <property> <n>: confirm a candidate change produced by a sub-agent in its
# scratch worktree /tmp/wt-<property>: (1) unmodified: demo passes; (2) patched: the crate's
# unit tests pass and the demo fails. Prints one line; leaves the worktree clean.
p=$1; n=$2; r="${ROUND:-}"; wt=/tmp/wt$r-$p; d=/tmp/mut$r-$p/$n
cd $wt || exit 2
git checkout -q -- . ; mkdir -p tests; cp $d/demo.rs tests/demo.rs
base=$(cargo test --offline --test demo 2>&1 | grep -E "^test result" | tail -1)
if ! git apply --check $d/patch.diff 2>/dev/null; then echo "$p/$n: patch does not apply"; rm -rf tests; exit 1; fi
git apply $d/patch.diff
unit=$(cargo test --offline --lib 2>&1 | grep -E "^test result" | tail -1)
demo=$(cargo test --offline --test demo 2>&1 | grep -E "^test result" | tail -1)
git checkout -q -- . ; rm -rf tests
echo "$p/$n | unmodified demo: $base | patched unit: $unit | patched demo: $demo"
