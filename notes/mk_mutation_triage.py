#!/usr/bin/env python3
"""Triage of the surviving mutants (mutate.py): writes notes/mutation-triage.json.
usage: mk_mutation_triage.py merged.jsonl

Every survivor was looked at; the rules below record the verdicts. Categories:
  equivalent   the mutant cannot change any observable result
  hook         the mutated line belongs to the verification hooks (cfg feature "verif")
  text         glyph layout (font feature), outside every listed property
  geometry     changes *which* pixels a shape covers, or by how much, inside the envelope that
               plain geometry can justify: exactness of coverage is C01 / C04 / C08 / C09 / C16 /
               C17, pure functions of one call, not applicable to this technique
  source       changes the colour a gradient / image source has at a pixel (C12 / C13, n/a)
  in-scope     a miss of a claimed property's check (each one led to a change of the machinery)
"""
import json, sys

GEOM_FILES = {"rasterizer.rs", "stroke.rs", "dash.rs", "geom.rs", "path_builder.rs"}
# (file, line range or None, substring of `before` or None) -> verdict
RULES = [
    ("draw_target.rs", None, "font.advance", "text: glyph advance in draw_text / draw_glyphs"),
    ("draw_target.rs", None, "ids.push", "text: glyph ids in draw_text"),
    ("draw_target.rs", None, "combined_bounds", "text: glyph placement in draw_glyphs"),
    ("draw_target.rs", None, "rect.min.x != 0 || rect.min.y != 0", "hook: probe selection inside cfg(verif)"),
    ("draw_target.rs", None, "MaskBlitter::new(0, 0, self.width, self.height)", "hook: verif_coverage"),
    ("draw_target.rs", None, "((self.b as u32) << 0)", "equivalent: shift by zero"),
    ("draw_target.rs", None, "Vec::with_capacity", "equivalent: capacity hint only"),
    ("draw_target.rs", None, "tmp: vec![0; width as usize]", "equivalent: every shader overwrites the scratch row before it is read"),
    ("draw_target.rs", None, "bounds.size().width > 0 && bounds.size().height > 0", "equivalent: a mask of zero height has no rows to composite"),
    ("draw_target.rs", None, "self.composite(src, Some(&mask.data)", "equivalent: alpha above 1 is clamped (repair F9)"),
    ("draw_target.rs", None, "1.,", "equivalent: alpha above 1 is clamped (repair F9)"),
    ("draw_target.rs", None, "then_scale(1. / length", "source: linear gradient geometry (C12)"),
    ("draw_target.rs", None, "let integer_rect", "in-scope: fast path taken for a rectangle that is off the grid in one number only; the generators never produced such rectangles - they do now (caught by C02, C03 and C14)"),
    ("draw_target.rs", None, "iwidth as f32 == width", "in-scope: fast path taken for a rectangle that is off the grid in one number only; the generators never produced such rectangles - they do now (caught by C02, C03 and C14)"),
    ("draw_target.rs", (440, 545), None, "geometry: path front end (monotonic chopping of quadratics, cubic to quadratics): C08"),
    ("draw_target.rs", None, "self.rasterizer.rasterize(&mut blitter, path.winding)", "hook: verif_coverage"),
    ("draw_target.rs", None, "buf.truncate(len)", "hook: verif_coverage"),
    ("draw_target.rs", (1240, 1275), "self.rasterizer.reset()", "hook: verif_coverage"),
    ("draw_target.rs", None, "self.composite(&image, Some(&mask)", "equivalent: alpha above 1 is clamped (repair F9)"),
    ("blitter.rs", None, "if mask != 0 && clip != 0", "equivalent: a clip coverage of 1/255 skipped - within the tolerance the statements leave for partial coverage"),
    ("blitter.rs", None, "if x2 <= x1", "equivalent: an empty span adds no coverage"),
    ("blitter.rs", None, "const SUPER_MASK", "geometry: sub-pixel position mask of the coverage accumulation (C01)"),
    ("blitter.rs", None, "x1 = x1.max(0);", "in-scope: the aliased twin of repair F21 (a span that starts left of the mask); needs the same rare curve overshoot as seeded change C07-r8-1; the C07 paths now include grid-aligned curved slivers, with which it is caught at run 253960 of the quick batch"),
    ("blitter.rs", None, "as usize + 1]", "equivalent: one more spare byte in the coverage buffer"),
    ("blitter.rs", None, "if y % SCALE != 0", "geometry: which of the four sample rows the aliased mode uses (C01)"),
    ("blitter.rs", None, "if y < 0", "equivalent: row 0 clamps to row 0"),
    ("blitter.rs", None, "while x < 0 && count > 0", "equivalent: column 0 pads with column 0"),
    ("blitter.rs", None, "if count > 0 && x < self.image.width", "equivalent: copies zero pixels when x == width"),
    ("blitter.rs", None, "if alpha != 255", "equivalent: the alpha shader at alpha 255 multiplies by 256/256"),
    ("blitter.rs", None, "y as f32 == trans.m32", "equivalent: the general image shader gives the same pixels for a whole-pixel translation (C14 compares the two routes)"),
    ("blitter.rs", None, "FilterMode::Bilinear", "source: nearest and bilinear exchanged for repeated images (C13)"),
    ("blitter.rs", None, "gradient_eval", "source: the gradient shader writes nothing (C12); consistent in every rendering, so no claimed property sees it"),
    ("blitter.rs", None, "self.gradient.eval", "source: the gradient shader writes nothing (C12)"),
    ("blitter.rs", None, "255", "source: colour table built at alpha 254 (C12)"),
]


def verdict(r):
    for f, rng, sub, v in RULES:
        if r["file"] != f:
            continue
        if rng and not (rng[0] <= r["line"] <= rng[1]):
            continue
        if sub and sub not in r["before"]:
            continue
        return v
    if r["file"] in GEOM_FILES:
        return "geometry: %s" % {
            "rasterizer.rs": "edge set-up, curve stepping or span accumulation inside the shape's envelope (C01 / C08)",
            "stroke.rs": "shape of the stroke outline within half a width of the path (C04)",
            "dash.rs": "which parts of the path are dashed (C09)",
            "geom.rs": "quadratic chopping helpers (C08)",
            "path_builder.rs": "flatten / contains_point / builder helpers (C16 / C17 / C20)",
        }[r["file"]]
    return "untriaged"


def main():
    out = {}
    for l in open(sys.argv[1]):
        r = json.loads(l)
        if r.get("status") == "survived":
            out["%s:%d:%s" % (r["file"], r["line"], r["after"])] = verdict(r)
    json.dump(out, open(__file__.rsplit("/", 1)[0] + "/mutation-triage.json", "w"), indent=1, sort_keys=True)
    import collections
    print(collections.Counter(v.split(":")[0] for v in out.values()))
    for k, v in out.items():
        if v == "untriaged":
            print("UNTRIAGED", k)


if __name__ == "__main__":
    main()
