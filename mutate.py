#!/usr/bin/env python3
"""Systematic mutation analysis of the checks (complements the hand-written seeded changes).

  mutate.py list                       enumerate the candidate mutants of /repo/src (JSON lines)
  mutate.py run  [--sample N] [--seed S] [--slots K] [--frac F] [--only REGEX] [--skip-from FILE] --out FILE
                                       apply each sampled mutant to a private clone of /repo, keep
                                       it only if it compiles and the 44 unit tests still pass,
                                       then run the quick checks (a fraction F of their runs,
                                       default 1/8) until one reports a violation
  mutate.py merge FILE... --out FILE     merge result files (later ones win; caught is never downgraded)
  mutate.py report --in FILE [--triage FILE]  markdown summary
  mutate.py rerun --in FILE --out FILE [--frac F] [--props "C02 C03 .."]  the survivors of an earlier pass against the current checks

Every mutant is one token-level change on one source line (relational / arithmetic / logical
operator, integer constant +-1, min<->max, floor<->ceil, dropped negation, deleted statement).
/repo itself is never touched: each slot works on /tmp/mutslot.<pid>.<k>/{repo,verif} and the
directories are removed at the end. Results: one JSON object per mutant in --out.
"""
import json, os, random, re, shutil, subprocess, sys, threading, time

VERIF = os.path.dirname(os.path.abspath(__file__))
REPO = os.environ.get("MUT_REPO", "/repo")
FILES = ["draw_target.rs", "blitter.rs", "rasterizer.rs", "stroke.rs", "dash.rs", "path_builder.rs", "geom.rs", "lib.rs"]
PLANNED = {"C02": 1200000, "C03": 1500000, "C05": 1600000, "C06": 1500000, "C07": 800000, "C10": 300000,
           "C11": 2000000, "C14": 3000000, "C15": 4000000, "C18": 2000000, "C19": 500000}
ORDER = ["C03", "C02", "C06", "C05", "C10", "C11", "C14", "C18", "C15", "C19", "C07"]

REL = [(" <= ", " < "), (" < ", " <= "), (" >= ", " > "), (" > ", " >= "), (" == ", " != "), (" != ", " == ")]
ARI = [(" + ", " - "), (" - ", " + "), (" += ", " -= "), (" -= ", " += "), (" * ", " + "), (" / ", " * "), (" >> ", " << "), (" << ", " >> ")]
LOG = [(" && ", " || "), (" || ", " && ")]
CALLS = [(".min(", ".max("), (".max(", ".min("), (".floor()", ".ceil()"), (".ceil()", ".floor()"), (".round()", ".floor()"),
         ("if !", "if "), ("while !", "while ")]


def code_part(line):
    i = line.find("//")
    return line if i < 0 else line[:i]


def candidates():
    out = []
    for f in FILES:
        path = os.path.join(REPO, "src", f)
        lines = open(path).read().split("\n")
        skip_next = False
        in_tests = False
        in_block = False
        hook_depth = 0
        for n, line in enumerate(lines):
            # block comments: blank them out (the few there are start and end on their own lines or
            # sit inside one line)
            code = line
            if in_block:
                j = code.find("*/")
                if j < 0:
                    continue
                code = " " * (j + 2) + code[j + 2:]
                in_block = False
            while "/*" in code:
                i = code.find("/*")
                j = code.find("*/", i + 2)
                if j < 0:
                    code = code[:i]
                    in_block = True
                    break
                code = code[:i] + " " * (j + 2 - i) + code[j + 2:]
            code = code_part(code)
            s = code.strip()
            if s.startswith("#[cfg(test)]") or s.startswith("mod tests"):
                in_tests = True
            if in_tests:
                continue
            if "feature = \"verif\"" in s and s.startswith("#["):
                skip_next = True
                continue
            if skip_next:
                skip_next = False
                if s == "{":
                    hook_depth = 1  # a whole block of hook code
                continue
            if hook_depth > 0:
                hook_depth += s.count("{") - s.count("}")
                continue
            if not s or s.startswith("#") or s.startswith("use ") or s.startswith("pub use") or "verif::" in s or "verif_" in s:
                continue
            if "assert" in s or "panic!" in s or "unreachable!" in s or s.startswith("fn ") or s.startswith("pub fn "):
                continue

            def add(kind, new):
                if new != line:
                    out.append({"file": f, "line": n + 1, "kind": kind, "before": line.strip(), "after": new.strip(), "new": new})

            for kind, table in (("rel", REL), ("ari", ARI), ("log", LOG), ("call", CALLS)):
                for a, b in table:
                    start = 0
                    while True:
                        i = code.find(a, start)
                        if i < 0:
                            break
                        add(kind, line[:i] + b + line[i + len(a):])
                        start = i + len(a)
            # integer constants (not part of identifiers, floats, type suffixes, tuple fields)
            for m in re.finditer(r"(?<![\w.])(\d+)(?![\w.])", code):
                v = int(m.group(1))
                if v > 100000:
                    continue
                for nv in ([v + 1, v - 1] if v > 0 else [v + 1]):
                    add("const", line[:m.start(1)] + str(nv) + line[m.end(1):])
            # float constants: halve / double
            for m in re.finditer(r"(?<![\w.])(\d+\.\d*)(?![\w])", code):
                v = float(m.group(1))
                if v != 0.0:
                    add("fconst", line[:m.start(1)] + repr(v * 2.0) + line[m.end(1):])
            # statement deletion: a call or an assignment on a line of its own
            if s.endswith(";") and not s.startswith(("let ", "return", "break", "continue", "pub ", "const ", "static ", "type ")) and "{" not in s and "}" not in s:
                if re.match(r"^[\w.\[\]*&():]+(\(.*\)|\s*([-+*/|&]|<<|>>)?=\s.*);$", s):
                    ind = line[: len(line) - len(line.lstrip())]
                    add("del", ind + "{}")
    for i, c in enumerate(out):
        c["id"] = i
    return out


def sh(cmd, cwd=None, env=None, timeout=None):
    try:
        p = subprocess.run(cmd, cwd=cwd, env=env, stdout=subprocess.PIPE, stderr=subprocess.STDOUT, timeout=timeout, text=True, errors="replace")
        return p.returncode, p.stdout
    except subprocess.TimeoutExpired as e:
        return 124, (e.stdout or b"").decode(errors="replace") if isinstance(e.stdout, bytes) else (e.stdout or "")


class Slot:
    def __init__(self, k):
        self.dir = "/tmp/mutslot.%d.%d" % (os.getpid(), k)
        shutil.rmtree(self.dir, ignore_errors=True)
        os.makedirs(self.dir)
        self.repo = self.dir + "/repo"
        self.verif = self.dir + "/verif"
        subprocess.check_call(["git", "clone", "-q", REPO, self.repo])
        subprocess.check_call(["rsync", "-a", "--exclude", "target", "--exclude", "seeded", "--exclude", ".git", "--exclude", "replays", "--exclude", "notes", VERIF + "/", self.verif + "/"])
        os.makedirs(self.verif + "/replays", exist_ok=True)
        self.env = dict(os.environ, CARGO_NET_OFFLINE="true", VERIF_REPO=self.repo, CARGO_TARGET_DIR=self.dir + "/unit-target")
        self.env.pop("VERIF_SEED", None)

    def close(self):
        shutil.rmtree(self.dir, ignore_errors=True)

    def apply(self, m):
        subprocess.check_call(["git", "checkout", "-q", "--", "."], cwd=self.repo)
        path = os.path.join(self.repo, "src", m["file"])
        lines = open(path).read().split("\n")
        lines[m["line"] - 1] = m["new"]
        open(path, "w").write("\n".join(lines))

    def test(self, m, frac, workers, props):
        r = {k: m[k] for k in ("id", "file", "line", "kind", "before", "after")}
        t0 = time.time()
        self.apply(m)
        rc, out = sh(["cargo", "test", "--offline", "--lib"], cwd=self.repo, env=self.env, timeout=300)
        if rc != 0:
            if "error[" in out or "error:" in out and "test result" not in out:
                r["status"] = "does-not-compile"
            elif rc == 124:
                r["status"] = "unit-tests-hang"
            else:
                r["status"] = "killed-by-unit-tests"
            r["secs"] = round(time.time() - t0, 1)
            return r
        env = dict(self.env)
        env.pop("CARGO_TARGET_DIR")
        rc, out = sh([self.verif + "/check", "build"], env=env, timeout=900)
        if rc != 0:
            r["status"] = "does-not-compile-with-hooks"
            r["secs"] = round(time.time() - t0, 1)
            return r
        r["status"] = "survived"
        for p in props:
            runs = max(2000, int(PLANNED[p] * frac))
            rc, out = sh([self.verif + "/check", p, "quick", "--runs", str(runs), "--workers", str(workers)], env=env, timeout=1800)
            if rc == 1:
                mo = re.search(r"violation in run (\d+) .*?oracle (\S+)", out)
                r["status"] = "caught"
                r["caught_by"] = p
                r["run"] = int(mo.group(1)) if mo else None
                r["oracle"] = mo.group(2) if mo else None
                break
            if rc != 0:
                r.setdefault("errors", []).append({"property": p, "rc": rc, "tail": out[-300:]})
        r["secs"] = round(time.time() - t0, 1)
        return r


def run(ms, out_path, slots, frac, props):
    workers = max(2, 16 // slots)
    lock = threading.Lock()
    it = iter(ms)
    outf = open(out_path, "a")
    counts = {}

    def work(k):
        slot = Slot(k)
        try:
            while True:
                with lock:
                    m = next(it, None)
                if m is None:
                    return
                try:
                    r = slot.test(m, frac, workers, props)
                except Exception as e:  # harness trouble: record and go on
                    r = {"id": m["id"], "status": "harness-error", "error": repr(e)}
                with lock:
                    counts[r["status"]] = counts.get(r["status"], 0) + 1
                    outf.write(json.dumps(r) + "\n")
                    outf.flush()
                    print("%s:%d %s [%s -> %s] %s %s" % (r.get("file"), r.get("line", 0), r.get("kind"), r.get("before", "")[:50], r.get("after", "")[:50], r["status"], r.get("caught_by", "")), flush=True)
        finally:
            slot.close()

    ts = [threading.Thread(target=work, args=(k,)) for k in range(slots)]
    for t in ts:
        t.start()
    for t in ts:
        t.join()
    print("SUMMARY", json.dumps(counts))


def report(path, triage_path):
    """markdown summary of a results file; --triage FILE: JSON {"file:line:after": "category: note"}"""
    import collections
    rs = [json.loads(l) for l in open(path)]
    triage = json.load(open(triage_path)) if triage_path and os.path.exists(triage_path) else {}
    st = collections.Counter(r["status"] for r in rs)
    print("| outcome | mutants |\n|---|---|")
    for k, v in sorted(st.items(), key=lambda kv: -kv[1]):
        print("| %s | %d |" % (k, v))
    alive = [r for r in rs if r["status"] in ("caught", "survived")]
    print("\nmutants that compile and pass the 44 unit tests: %d; caught by a check: %d (%.0f %%)\n" % (len(alive), st["caught"], 100.0 * st["caught"] / max(1, len(alive))))
    print("| file | pass unit tests | caught | survived |\n|---|---|---|---|")
    for f in FILES:
        a = [r for r in alive if r["file"] == f]
        if a:
            print("| %s | %d | %d | %d |" % (f, len(a), sum(r["status"] == "caught" for r in a), sum(r["status"] == "survived" for r in a)))
    by = collections.Counter(r.get("caught_by") for r in rs if r["status"] == "caught")
    print("\ncaught first by (checks run in the order %s): %s\n" % (" ".join(ORDER), ", ".join("%s %d" % kv for kv in by.most_common())))
    cats = collections.Counter()
    rows = []
    for r in sorted((r for r in rs if r["status"] == "survived"), key=lambda r: (r["file"], r["line"])):
        t = triage.get("%s:%d:%s" % (r["file"], r["line"], r["after"]), "untriaged")
        cats[t.split(":")[0]] += 1
        rows.append("| %s:%d | `%s` | `%s` | %s |" % (r["file"], r["line"], r["before"][:60].replace("|", "\\|"), r["after"][:60].replace("|", "\\|"), t))
    print("survivors by category: " + ", ".join("%s %d" % kv for kv in cats.most_common()) + "\n")
    print("| where | before | after | triage |\n|---|---|---|---|")
    print("\n".join(rows))


def arg(name, default=None):
    return sys.argv[sys.argv.index(name) + 1] if name in sys.argv else default


def main():
    cmd = sys.argv[1] if len(sys.argv) > 1 else "list"
    if cmd == "list":
        for c in candidates():
            c = dict(c)
            c.pop("new")
            print(json.dumps(c))
        return
    if cmd == "run":
        ms = candidates()
        only = arg("--only")
        if only:
            ms = [m for m in ms if re.search(only, "%s:%d:%s" % (m["file"], m["line"], m["kind"]))]
        done = set()
        out = arg("--out")
        if os.path.exists(out):
            done = {json.loads(l)["id"] for l in open(out)}
        skip = arg("--skip-from")
        if skip and os.path.exists(skip):
            seen = {(r.get("file"), r.get("before"), r.get("after")) for r in map(json.loads, open(skip))}
            ms = [m for m in ms if (m["file"], m["before"], m["after"]) not in seen]
        rnd = random.Random(int(arg("--seed", "1")))
        rnd.shuffle(ms)
        n = int(arg("--sample", str(len(ms))))
        ms = [m for m in ms[:n] if m["id"] not in done]
        run(ms, out, int(arg("--slots", "4")), float(arg("--frac", "0.125")), ORDER)
        return
    if cmd == "rerun":
        # survivors of an earlier pass against the current checks; matched by text, the nearest
        # line winning (the repository may have moved on since)
        cands = candidates()
        sv = [json.loads(l) for l in open(arg("--in"))]
        ms = []
        for r in sv:
            if r["status"] != "survived":
                continue
            same = [m for m in cands if m["file"] == r["file"] and m["before"] == r["before"] and m["after"] == r["after"]]
            if same:
                ms.append(min(same, key=lambda m: abs(m["line"] - r["line"])))
        only = arg("--only")
        if only:
            ms = [m for m in ms if re.search(only, "%s:%d:%s" % (m["file"], m["line"], m["kind"]))]
        props = arg("--props", " ".join(ORDER)).split()
        run(ms, arg("--out"), int(arg("--slots", "4")), float(arg("--frac", "0.25")), props)
        return
    if cmd == "merge":
        # merge passes: later files override earlier ones for the same mutant (file, before, after,
        # nearest line), except that "caught" is never downgraded to "survived" (a rerun with a
        # subset of the checks or a fraction of the runs says nothing about the other checks)
        out = {}  # (file, before, after) -> list of records (same text on different lines)
        for f in sys.argv[2:]:
            if f.startswith("--"):
                break
            for l in open(f):
                r = json.loads(l)
                if "file" not in r:
                    continue
                lst = out.setdefault((r["file"], r["before"], r["after"]), [])
                # the same mutant if the line is close (the repository moved on between passes)
                near = [i for i, o in enumerate(lst) if abs(o["line"] - r["line"]) <= 40]
                if not near:
                    lst.append(r)
                    continue
                i = min(near, key=lambda i: abs(lst[i]["line"] - r["line"]))
                if lst[i]["status"] == "caught" and r["status"] == "survived":
                    continue
                lst[i] = r
        out = {(k, i): r for k, lst in out.items() for i, r in enumerate(lst)}
        with open(arg("--out"), "w") as o:
            for r in out.values():
                o.write(json.dumps(r) + "\n")
        print(len(out), "mutants")
        return
    if cmd == "report":
        report(arg("--in"), arg("--triage"))
        return
    print(__doc__)
    sys.exit(2)


if __name__ == "__main__":
    main()
