#!/bin/bash
# print the newest replay of a property, truncated
python3 -c "
import json,glob,os,sys
fs=sorted(glob.glob('/verif/replays/$1-*.json'), key=os.path.getmtime)
r=json.load(open(fs[-1]))
print(fs[-1], [(s['w'],s['h']) for s in r['history']['surfaces']], 'variant',r['history'].get('variant'),'buggify',r['history']['buggify'])
print('oracle', r['oracle'], '|', r['detail'][:400])
for s in r['history']['steps']: print(json.dumps(s)[:${2:-400}])
"
